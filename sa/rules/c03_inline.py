"""Helper for the C03 pack: syntactic normalisations applied to a *copy* of a function before analysis.

  * inline_helpers: calls to private helpers of the same class / module are expanded in place (function inlining on
    the AST): expression-bodied helpers (`return EXPR`) anywhere, statement-bodied helpers where the call is the whole
    right side of `name = helper(...)` (early returns are converted to if/else assignments).  This is what makes the
    intraprocedural flow/table rules see through "extract method" refactorings.  A helper that cannot be inlined
    (loops with returns, try, yield, *args) is left as a call - the flow analysis then tags what passes through it as
    `via:` (opaque) and the rule ends undecided instead of reporting a violation.
  * inline_test_locals: a local with one definition that is a boolean expression over never-reassigned names is
    substituted into the branch tests that read it (`needs_quoting = a or b; if not needs_quoting:`).
  * comprehension_as_loop: `return [ELT for x in xs]` -> `out = []; for x in xs: out.append(ELT); return out` with a
    conditional ELT split into if/else.

Nothing is executed; the result is only ever parsed/walked by the rules.
"""
from __future__ import annotations

import ast
import copy
import typing as T

from ..core import Module, walk_no_nested, decorator_names

FuncNode = T.Union[ast.FunctionDef, ast.AsyncFunctionDef]


class _Sub(ast.NodeTransformer):
    def __init__(self, mapping: T.Dict[str, ast.AST], rename: T.Optional[T.Dict[str, str]] = None):
        self.mapping = mapping
        self.rename = rename or {}

    def visit_Name(self, n: ast.Name) -> ast.AST:
        if n.id in self.mapping and isinstance(n.ctx, ast.Load):
            return copy.deepcopy(self.mapping[n.id])
        if n.id in self.rename:
            return ast.copy_location(ast.Name(id=self.rename[n.id], ctx=n.ctx), n)
        return n


def _body_wo_doc(fn: FuncNode) -> T.List[ast.stmt]:
    b = list(fn.body)
    if b and isinstance(b[0], ast.Expr) and isinstance(b[0].value, ast.Constant) and isinstance(b[0].value.value, str):
        b = b[1:]
    return b


_ATTR_CLASSES: T.Dict[T.Tuple[str, str, str], T.Dict[str, str]] = {}


def _attr_class(mod: Module, cls: str, attr: str) -> T.Optional[str]:
    """Declared class of `self.<attr>` of class cls: a class-level annotation `attr: C` or `self.attr: C = ...` in a method,
    where C is a class of the same module (one scan per class, cached by module digest)."""
    key = (mod.rel, mod.digest, cls)
    if key not in _ATTR_CLASSES:
        table: T.Dict[str, str] = {}
        if mod.has_cls(cls):
            c = mod.cls(cls)
            body_ids = {id(x) for x in c.body}
            for n in ast.walk(c):
                if isinstance(n, ast.AnnAssign):
                    t = n.target
                    nm_attr = t.id if isinstance(t, ast.Name) and id(n) in body_ids else \
                        (t.attr if isinstance(t, ast.Attribute) and isinstance(t.value, ast.Name) and t.value.id == 'self' else None)
                    if nm_attr is None:
                        continue
                    a = n.annotation
                    nm = a.value if isinstance(a, ast.Constant) and isinstance(a.value, str) else (a.id if isinstance(a, ast.Name) else None)
                    if isinstance(nm, str) and mod.has_cls(nm):
                        table.setdefault(nm_attr, nm)
        if len(_ATTR_CLASSES) > 32:
            _ATTR_CLASSES.clear()
        _ATTR_CLASSES[key] = table
    return _ATTR_CLASSES[key].get(attr)


def _resolve(mod: Module, cls: T.Optional[str], call: ast.Call, exclude: T.Set[str]) -> T.Optional[T.Tuple[FuncNode, bool, T.Optional[ast.AST]]]:
    """(helper, drop first parameter?, receiver expression that stands for the helper's `self` - None when it is our own self)"""
    f = call.func
    if isinstance(f, ast.Name):
        if f.id in exclude or not mod.has_func(f.id):
            return None
        return mod.func(f.id), False, None
    if isinstance(f, ast.Attribute) and isinstance(f.value, ast.Name) and cls and f.value.id in ('self', 'cls', cls):
        q = f'{cls}.{f.attr}'
        if f.attr in exclude or not mod.has_func(q):
            return None
        h = mod.func(q)
        decs = decorator_names(h)
        if any(d not in ('staticmethod', 'classmethod') for d in decs):
            return None
        return h, 'staticmethod' not in decs, None
    if isinstance(f, ast.Attribute) and isinstance(f.value, ast.Attribute) and isinstance(f.value.value, ast.Name) and f.value.value.id == 'self' and cls:
        # self.<attr>.m(...): a method of the declared class of the attribute
        other = _attr_class(mod, cls, f.value.attr)
        q = f'{other}.{f.attr}' if other else None
        if q is None or f.attr in exclude or not mod.has_func(q):
            return None
        h = mod.func(q)
        decs = decorator_names(h)
        if any(d not in ('staticmethod',) for d in decs):
            return None
        return h, 'staticmethod' not in decs, (f.value if 'staticmethod' not in decs else None)
    return None


def _bind(h: FuncNode, call: ast.Call, drop_first: bool) -> T.Optional[T.Dict[str, ast.AST]]:
    a = h.args
    if a.vararg or a.kwarg or a.posonlyargs or any(isinstance(x, ast.Starred) for x in call.args) or any(k.arg is None for k in call.keywords):
        return None
    params = [x.arg for x in a.args]
    defaults: T.Dict[str, ast.AST] = dict(zip(params[len(params) - len(a.defaults):], a.defaults))
    for x, d in zip(a.kwonlyargs, a.kw_defaults):
        params.append(x.arg)
        if d is not None:
            defaults[x.arg] = d
    if drop_first:
        params = params[1:]
    if len(call.args) > len(params):
        return None
    out: T.Dict[str, ast.AST] = dict(zip(params, call.args))
    for k in call.keywords:
        if k.arg not in params or k.arg in out:
            return None
        out[k.arg] = k.value
    for p in params:
        if p not in out:
            if p not in defaults:
                return None
            out[p] = defaults[p]
    return out


def _simple(e: ast.AST) -> bool:
    while isinstance(e, ast.Attribute):
        e = e.value
    return isinstance(e, (ast.Name, ast.Constant))


def _stores(nodes: T.Iterable[ast.AST]) -> T.Set[str]:
    return {n.id for r in nodes for n in ast.walk(r) if isinstance(n, ast.Name) and isinstance(n.ctx, (ast.Store, ast.Del))}


def _plain(stmts: T.List[ast.stmt]) -> bool:
    for st in stmts:
        for n in ast.walk(st):
            if isinstance(n, (ast.Yield, ast.YieldFrom, ast.Await, ast.FunctionDef, ast.AsyncFunctionDef, ast.Lambda,
                              ast.Global, ast.Nonlocal, ast.ClassDef)) or n.__class__.__name__ in ('TryStar', 'Match'):
                return False
            if isinstance(n, (ast.Try, ast.With, ast.AsyncWith)) and any(isinstance(x, ast.Return) for x in ast.walk(n)):
                return False      # a return inside a try/with cannot be turned into an assignment by _conv
            if isinstance(n, (ast.For, ast.While, ast.AsyncFor)) and any(isinstance(x, ast.Return) for x in ast.walk(n)):
                return False
    return True


def _conv(stmts: T.List[ast.stmt], target: str) -> T.List[ast.stmt]:
    """Replace `return X` by `target = X`, turning early returns into if/else."""
    if not stmts:
        return []
    st, rest = stmts[0], stmts[1:]
    if isinstance(st, ast.Return):
        v = st.value if st.value is not None else ast.Constant(value=None)
        if isinstance(v, ast.Name) and v.id == target:
            return []
        return [ast.copy_location(ast.Assign(targets=[ast.Name(id=target, ctx=ast.Store())], value=v, lineno=st.lineno), st)]
    if isinstance(st, ast.If) and any(isinstance(x, ast.Return) for x in ast.walk(st)):
        new = ast.If(test=st.test, body=_conv(list(st.body) + copy.deepcopy(rest), target) or [ast.Pass()],
                     orelse=_conv(list(st.orelse) + copy.deepcopy(rest), target))
        return [ast.copy_location(new, st)]
    return [st] + _conv(rest, target)


def _expr_bodied(h: FuncNode) -> T.Optional[ast.AST]:
    b = _body_wo_doc(h)
    if len(b) == 1 and isinstance(b[0], ast.Return) and b[0].value is not None and _plain(b):
        return b[0].value
    return None


def inline_helpers(mod: Module, fn: FuncNode, cls: T.Optional[str], exclude: T.Iterable[str] = (), passes: int = 2) -> FuncNode:
    fn = copy.deepcopy(fn)
    excl = set(exclude) | {fn.name}
    for _ in range(passes):
        changed = False
        caller_names = {n.id for n in ast.walk(fn) if isinstance(n, ast.Name)} | {a.arg for a in fn.args.args}

        def expand_stmt(st: ast.stmt) -> T.Optional[T.List[ast.stmt]]:
            if isinstance(st, ast.Assign) and len(st.targets) == 1 and isinstance(st.targets[0], ast.Name) and isinstance(st.value, ast.Call):
                target, call = st.targets[0].id, st.value
            elif isinstance(st, ast.AnnAssign) and isinstance(st.target, ast.Name) and isinstance(st.value, ast.Call):
                target, call = st.target.id, st.value
            elif isinstance(st, ast.Expr) and isinstance(st.value, ast.Call):
                target, call = '_', st.value          # phase helper called for its effects: a returned value is dropped
            else:
                return None
            r = _resolve(mod, cls, call, excl)
            if r is None:
                return None
            h, drop, recv = r
            if target == '_':
                target = f'_ret__{h.name}'
            if _expr_bodied(h) is not None:
                return None          # handled at expression level
            body = copy.deepcopy(_body_wo_doc(h))
            binding = _bind(h, call, drop)
            if binding is None or not _plain(body) or not body:
                return None
            stored = _stores(body)
            pre: T.List[ast.stmt] = []
            mapping: T.Dict[str, ast.AST] = {}
            rename: T.Dict[str, str] = {}
            if recv is not None:
                mapping['self'] = recv
            for p, a in binding.items():
                if _simple(a) and p not in stored:
                    mapping[p] = a
                elif isinstance(a, ast.Name) and a.id == target and p in stored \
                        and not any(isinstance(n, ast.Name) and n.id == target for p2, a2 in binding.items() if p2 != p for n in ast.walk(a2)):
                    # `x = helper(.., x, ..)` where the helper rebinds that parameter: the parameter IS the caller's x (the call
                    # overwrites x with the result anyway, and no other argument reads x)
                    rename[p] = target
                else:
                    fresh = p if (p not in caller_names or (isinstance(a, ast.Name) and a.id == p)) else f'{p}__{h.name}'
                    if not (isinstance(a, ast.Name) and a.id == fresh):
                        pre.append(ast.copy_location(ast.Assign(targets=[ast.Name(id=fresh, ctx=ast.Store())], value=copy.deepcopy(a), lineno=st.lineno), st))
                    if fresh != p:
                        rename[p] = fresh
            for loc in stored - set(binding):
                if loc in caller_names:
                    rename[loc] = f'{loc}__{h.name}'
            body = [_Sub(mapping, rename).visit(s) for s in body]
            out = pre + _conv(body, target)
            for s in out:
                ast.fix_missing_locations(s)
            return out

        def hoist(st: ast.stmt) -> T.Optional[T.List[ast.stmt]]:
            """`xs.append(helper(a))` / `return f(helper(a))` ... -> `tmp = helper(a); xs.append(tmp)` for a statement-bodied helper
            (the only such call of the statement, not inside a comprehension or lambda), then expanded like any `tmp = helper(a)`."""
            if not isinstance(st, (ast.Expr, ast.Assign, ast.AugAssign, ast.Return, ast.AnnAssign)):
                return None
            inner_scopes = {id(x) for n in ast.walk(st) if isinstance(n, (ast.ListComp, ast.SetComp, ast.DictComp, ast.GeneratorExp, ast.Lambda)) for x in ast.walk(n)}
            cands = []
            for c in ast.walk(st):
                if isinstance(c, ast.Call) and id(c) not in inner_scopes:
                    r = _resolve(mod, cls, c, excl)
                    if r is not None and _expr_bodied(r[0]) is None:
                        cands.append((c, r[0]))
            top = st.value if isinstance(st, (ast.Expr, ast.Assign, ast.AnnAssign, ast.Return)) else None
            if len(cands) != 1 or cands[0][0] is top:
                return None
            call, h = cands[0]
            tmp = f'_v__{h.name}'
            pre = ast.copy_location(ast.Assign(targets=[ast.Name(id=tmp, ctx=ast.Store())], value=call, lineno=st.lineno), st)
            exp = expand_stmt(pre)
            if exp is None:
                return None

            class _Rep(ast.NodeTransformer):
                def visit_Call(self, n: ast.Call) -> ast.AST:
                    if n is call:
                        return ast.copy_location(ast.Name(id=tmp, ctx=ast.Load()), n)
                    self.generic_visit(n)
                    return n
            return exp + [_Rep().visit(st)]

        def walk_block(stmts: T.List[ast.stmt]) -> T.List[ast.stmt]:
            nonlocal changed
            res: T.List[ast.stmt] = []
            for st in stmts:
                rep = expand_stmt(st)
                if rep is None:
                    rep = hoist(st)
                if rep is not None:
                    changed = True
                    res.extend(rep)
                    continue
                for field in ('body', 'orelse', 'finalbody'):
                    sub = getattr(st, field, None)
                    if isinstance(sub, list) and sub and isinstance(sub[0], ast.stmt) and not isinstance(st, (ast.FunctionDef, ast.AsyncFunctionDef, ast.ClassDef)):
                        setattr(st, field, walk_block(sub))
                for hd in getattr(st, 'handlers', []):
                    hd.body = walk_block(hd.body)
                res.append(st)
            return res
        fn.body = walk_block(fn.body)

        class _E(ast.NodeTransformer):
            def visit_Call(self, c: ast.Call) -> ast.AST:
                nonlocal changed
                self.generic_visit(c)
                r = _resolve(mod, cls, c, excl)
                if r is None:
                    return c
                h, drop, recv = r
                val = _expr_bodied(h)
                if val is None:
                    return c
                binding = _bind(h, c, drop)
                if binding is None:
                    return c
                if recv is not None:
                    binding = dict(binding)
                    binding['self'] = recv
                uses: T.Dict[str, int] = {}
                for n in ast.walk(val):
                    if isinstance(n, ast.Name):
                        uses[n.id] = uses.get(n.id, 0) + 1
                if any(not _simple(a) and uses.get(p, 0) > 1 for p, a in binding.items()) or (_stores([val]) & set(binding)):
                    return c
                changed = True
                return ast.copy_location(_Sub(dict(binding)).visit(copy.deepcopy(val)), c)
        fn = _E().visit(fn)
        ast.fix_missing_locations(fn)
        if not changed:
            break
    return fn


def inline_test_locals(fn: FuncNode, inplace: bool = False) -> FuncNode:
    fn = fn if inplace else copy.deepcopy(fn)
    stores: T.Dict[str, int] = {}
    for n in walk_no_nested(fn):
        if isinstance(n, ast.Name) and isinstance(n.ctx, (ast.Store, ast.Del)):
            stores[n.id] = stores.get(n.id, 0) + 1
    in_loop = {id(x) for n in walk_no_nested(fn) if isinstance(n, (ast.For, ast.While, ast.AsyncFor)) for x in ast.walk(n)}
    cands: T.Dict[str, ast.AST] = {}
    for st in walk_no_nested(fn):
        if isinstance(st, ast.Assign) and len(st.targets) == 1 and isinstance(st.targets[0], ast.Name) and id(st) not in in_loop:
            nm, v = st.targets[0].id, st.value
            is_anyall = isinstance(v, ast.Call) and isinstance(v.func, ast.Name) and v.func.id in ('any', 'all') and len(v.args) == 1 and isinstance(v.args[0], (ast.GeneratorExp, ast.ListComp))
            if stores.get(nm) != 1 or not isinstance(v, (ast.BoolOp, ast.Compare)) and not (isinstance(v, ast.UnaryOp) and isinstance(v.op, ast.Not)) and not is_anyall:
                continue
            inner_calls = [x for x in ast.walk(v) if isinstance(x, (ast.Call, ast.Await, ast.NamedExpr, ast.Lambda)) and not (is_anyall and x is v)]
            if inner_calls:
                continue
            comp_vars = {x.id for g in ast.walk(v) if isinstance(g, ast.comprehension) for x in ast.walk(g.target) if isinstance(x, ast.Name)}
            if any(stores.get(x.id, 0) for x in ast.walk(v) if isinstance(x, ast.Name) and x.id not in comp_vars):
                continue       # reads something that is (re)assigned in the function
            cands[nm] = v
    if not cands:
        return fn

    class _T(ast.NodeTransformer):
        def visit_If(self, n: ast.If) -> ast.AST:
            self.generic_visit(n)
            n.test = _Sub(cands).visit(n.test)
            return n

        def visit_While(self, n: ast.While) -> ast.AST:
            self.generic_visit(n)
            n.test = _Sub(cands).visit(n.test)
            return n

        def visit_IfExp(self, n: ast.IfExp) -> ast.AST:
            self.generic_visit(n)
            n.test = _Sub(cands).visit(n.test)
            return n
    fn = _T().visit(fn)
    ast.fix_missing_locations(fn)
    return fn


def comprehension_as_loop(fn: FuncNode, out: str = 'out__') -> T.Optional[FuncNode]:
    """`return [ELT for x in xs]` as the only statement -> explicit loop (None if the function has another shape)."""
    b = _body_wo_doc(fn)
    if not (len(b) == 1 and isinstance(b[0], ast.Return) and isinstance(b[0].value, ast.ListComp)):
        return None
    comp = b[0].value
    if len(comp.generators) != 1 or comp.generators[0].ifs or comp.generators[0].is_async:
        return None
    g = comp.generators[0]

    def app(e: ast.AST) -> ast.stmt:
        return ast.Expr(value=ast.Call(func=ast.Attribute(value=ast.Name(id=out, ctx=ast.Load()), attr='append', ctx=ast.Load()), args=[e], keywords=[]))
    if isinstance(comp.elt, ast.IfExp):
        inner: T.List[ast.stmt] = [ast.If(test=comp.elt.test, body=[app(comp.elt.body)], orelse=[app(comp.elt.orelse)])]
    else:
        inner = [app(comp.elt)]
    new = copy.deepcopy(fn)
    new.body = [ast.Assign(targets=[ast.Name(id=out, ctx=ast.Store())], value=ast.List(elts=[], ctx=ast.Load())),
                ast.For(target=copy.deepcopy(g.target), iter=copy.deepcopy(g.iter), body=copy.deepcopy(inner), orelse=[]),
                ast.Return(value=ast.Name(id=out, ctx=ast.Load()))]
    for s in new.body:
        ast.copy_location(s, b[0])
    ast.fix_missing_locations(new)
    return new


# ---------------------------------------------------------------------------
# round 7 normal forms

def _single_defs(fn: FuncNode) -> T.Dict[str, ast.AST]:
    """Locals with exactly one binding in the function, a plain `name = value` outside any loop."""
    stores: T.Dict[str, int] = {}
    for n in walk_no_nested(fn):
        if isinstance(n, ast.Name) and isinstance(n.ctx, (ast.Store, ast.Del)):
            stores[n.id] = stores.get(n.id, 0) + 1
    params = {a.arg for a in fn.args.posonlyargs + fn.args.args + fn.args.kwonlyargs}
    in_loop = {id(x) for n in walk_no_nested(fn) if isinstance(n, (ast.For, ast.While, ast.AsyncFor)) for x in ast.walk(n)}
    out: T.Dict[str, ast.AST] = {}
    for st in walk_no_nested(fn):
        tgt, val = None, None
        if isinstance(st, ast.Assign) and len(st.targets) == 1 and isinstance(st.targets[0], ast.Name):
            tgt, val = st.targets[0].id, st.value
        elif isinstance(st, ast.AnnAssign) and isinstance(st.target, ast.Name) and st.value is not None:
            tgt, val = st.target.id, st.value
        if tgt and stores.get(tgt) == 1 and tgt not in params and id(st) not in in_loop:
            out[tgt] = val
    return out


def unroll_const_loops(fn: FuncNode, inplace: bool = False) -> FuncNode:
    """`for a, b in T:` where T is (a single-definition local bound to) a tuple/list display of equally long tuple
    displays, or `for a in (x, y, z):`, with a body free of break/continue/else: the body is repeated once per
    element with the loop variables replaced by the element expressions (kind A4/B5 of the catalogue)."""
    fn = fn if inplace else copy.deepcopy(fn)
    defs = _single_defs(fn)

    def elements(it: ast.AST) -> T.Optional[T.List[ast.AST]]:
        if isinstance(it, ast.Name) and it.id in defs:
            it = defs[it.id]
        if isinstance(it, (ast.Tuple, ast.List)) and it.elts and not any(isinstance(x, ast.Starred) for x in it.elts) and len(it.elts) <= 12:
            return list(it.elts)
        return None

    def expand(st: ast.stmt) -> T.Optional[T.List[ast.stmt]]:
        if not isinstance(st, ast.For) or st.orelse:
            return None
        elts = elements(st.iter)
        if elts is None:
            return None
        if any(isinstance(x, (ast.Break, ast.Continue, ast.Return, ast.Yield, ast.YieldFrom)) for b in st.body for x in ast.walk(b)):
            return None
        tnames = [st.target.id] if isinstance(st.target, ast.Name) else \
            ([t.id for t in st.target.elts] if isinstance(st.target, (ast.Tuple, ast.List)) and all(isinstance(t, ast.Name) for t in st.target.elts) else None)
        if tnames is None or (_stores(st.body) & set(tnames)):
            return None
        out: T.List[ast.stmt] = []
        for e in elts:
            if isinstance(st.target, ast.Name):
                vals = [e]
            elif isinstance(e, (ast.Tuple, ast.List)) and len(e.elts) == len(tnames) and not any(isinstance(x, ast.Starred) for x in e.elts):
                vals = list(e.elts)
            else:
                return None
            if not all(_simple(v) or sum(1 for b in st.body for n in ast.walk(b) if isinstance(n, ast.Name) and n.id == nm) <= 2 for nm, v in zip(tnames, vals)):
                return None
            mapping = dict(zip(tnames, vals))
            out += [_Sub(mapping).visit(copy.deepcopy(b)) for b in st.body]
        return out

    def walk_block(stmts: T.List[ast.stmt]) -> T.List[ast.stmt]:
        res: T.List[ast.stmt] = []
        for st in stmts:
            for field in ('body', 'orelse', 'finalbody'):
                sub = getattr(st, field, None)
                if isinstance(sub, list) and sub and isinstance(sub[0], ast.stmt) and not isinstance(st, (ast.FunctionDef, ast.AsyncFunctionDef, ast.ClassDef)):
                    setattr(st, field, walk_block(sub))
            for hd in getattr(st, 'handlers', []):
                hd.body = walk_block(hd.body)
            rep = expand(st)
            if rep is not None:
                res.extend(rep)
            else:
                res.append(st)
        return res
    fn.body = walk_block(fn.body)
    ast.fix_missing_locations(fn)
    return fn


class _ConstSimplify(ast.NodeTransformer):
    """Constant folding of branch structure: `A if True else B` -> A, `if False: ...` removed, `not True`, and/or with constants."""

    def visit_IfExp(self, n: ast.IfExp) -> ast.AST:
        self.generic_visit(n)
        if isinstance(n.test, ast.Constant):
            return n.body if n.test.value else n.orelse
        return n

    def visit_UnaryOp(self, n: ast.UnaryOp) -> ast.AST:
        self.generic_visit(n)
        if isinstance(n.op, ast.Not) and isinstance(n.operand, ast.Constant):
            return ast.copy_location(ast.Constant(value=not n.operand.value), n)
        return n

    def visit_BoolOp(self, n: ast.BoolOp) -> ast.AST:
        self.generic_visit(n)
        is_and = isinstance(n.op, ast.And)
        vals: T.List[ast.expr] = []
        for v in n.values:
            if isinstance(v, ast.Constant) and isinstance(v.value, bool):
                if v.value is (not is_and):
                    return ast.copy_location(ast.Constant(value=v.value), n) if not vals else n
                continue
            vals.append(v)
        if not vals:
            return ast.copy_location(ast.Constant(value=is_and), n)
        if len(vals) == 1:
            return vals[0]
        n.values = vals
        return n

    def visit_If(self, n: ast.If) -> T.Any:
        self.generic_visit(n)
        if isinstance(n.test, ast.Constant):
            return (n.body if n.test.value else n.orelse) or [ast.copy_location(ast.Pass(), n)]
        return n


def specialise(fn: FuncNode, assign: ast.stmt, values: T.Dict[str, T.Any]) -> FuncNode:
    """Copy of fn in which the statement `assign` (identified by position) binds the given names to the given constants,
    these constants are propagated to the (single-definition) names and constant branch structure is folded away."""
    idx = [i for i, n in enumerate(ast.walk(fn)) if n is assign]
    new = copy.deepcopy(fn)
    target = [n for i, n in enumerate(ast.walk(new)) if idx and i == idx[0]][0]
    consts = {k: ast.Constant(value=v) for k, v in values.items()}

    class _R(ast.NodeTransformer):
        def visit(self, node: ast.AST) -> T.Any:
            if node is target:
                return [ast.copy_location(ast.Assign(targets=[ast.Name(id=k, ctx=ast.Store())], value=c, lineno=getattr(node, 'lineno', 1)), node) for k, c in consts.items()]
            return super().visit(node)
    new = _R().visit(new)
    ast.fix_missing_locations(new)
    stores: T.Dict[str, int] = {}
    for n in walk_no_nested(new):
        if isinstance(n, ast.Name) and isinstance(n.ctx, ast.Store):
            stores[n.id] = stores.get(n.id, 0) + 1
    mapping = {k: c for k, c in consts.items() if stores.get(k) == 1}
    new = _Sub(mapping).visit(new)
    new = _ConstSimplify().visit(new)
    ast.fix_missing_locations(new)
    return new


def ifexp_assign_to_if(fn: FuncNode, inplace: bool = False) -> FuncNode:
    """`x = A if c else B` (also `return A if c else B`) -> if c: x = A else: x = B   (catalogue C4)."""
    fn = fn if inplace else copy.deepcopy(fn)

    def conv(st: ast.stmt) -> T.Optional[T.List[ast.stmt]]:
        if isinstance(st, ast.Assign) and isinstance(st.value, ast.IfExp):
            mk = lambda v: ast.Assign(targets=copy.deepcopy(st.targets), value=v, lineno=st.lineno)   # noqa: E731
        elif isinstance(st, ast.AnnAssign) and isinstance(st.value, ast.IfExp) and isinstance(st.target, ast.Name):
            mk = lambda v: ast.Assign(targets=[copy.deepcopy(st.target)], value=v, lineno=st.lineno)   # noqa: E731
        elif isinstance(st, ast.Return) and isinstance(st.value, ast.IfExp):
            mk = lambda v: ast.Return(value=v)   # noqa: E731
        else:
            return None
        e = st.value
        new = ast.If(test=e.test, body=[ast.copy_location(mk(e.body), st)], orelse=[ast.copy_location(mk(e.orelse), st)])
        return [ast.copy_location(new, st)]

    def walk_block(stmts: T.List[ast.stmt]) -> T.List[ast.stmt]:
        res: T.List[ast.stmt] = []
        for st in stmts:
            rep = conv(st)
            while rep is not None and len(rep) == 1 and isinstance(rep[0], ast.If):
                # nested conditional expressions in the arms
                node = rep[0]
                node.body = walk_block(node.body)
                node.orelse = walk_block(node.orelse)
                break
            if rep is not None:
                res.extend(rep)
                continue
            for field in ('body', 'orelse', 'finalbody'):
                sub = getattr(st, field, None)
                if isinstance(sub, list) and sub and isinstance(sub[0], ast.stmt) and not isinstance(st, (ast.FunctionDef, ast.AsyncFunctionDef, ast.ClassDef)):
                    setattr(st, field, walk_block(sub))
            for hd in getattr(st, 'handlers', []):
                hd.body = walk_block(hd.body)
            res.append(st)
        return res
    fn.body = walk_block(fn.body)
    ast.fix_missing_locations(fn)
    return fn


def search_loop_to_any(fn: FuncNode, inplace: bool = False) -> FuncNode:
    """`flag = False; for x in it: if cond: flag = True; break` -> `flag = any(cond for x in it)`   (catalogue D2)."""
    fn = fn if inplace else copy.deepcopy(fn)

    def walk_block(stmts: T.List[ast.stmt]) -> T.List[ast.stmt]:
        res: T.List[ast.stmt] = []
        k = 0
        while k < len(stmts):
            st = stmts[k]
            nxt = stmts[k + 1] if k + 1 < len(stmts) else None
            if isinstance(st, ast.Assign) and len(st.targets) == 1 and isinstance(st.targets[0], ast.Name) and isinstance(st.value, ast.Constant) and st.value.value is False \
                    and isinstance(nxt, ast.For) and not nxt.orelse and len(nxt.body) == 1 and isinstance(nxt.body[0], ast.If) and not nxt.body[0].orelse:
                flag = st.targets[0].id
                body = nxt.body[0].body
                sets = len(body) in (1, 2) and isinstance(body[0], ast.Assign) and len(body[0].targets) == 1 and norm_name(body[0].targets[0]) == flag \
                    and isinstance(body[0].value, ast.Constant) and body[0].value.value is True and (len(body) == 1 or isinstance(body[1], ast.Break))
                if sets:
                    gen = ast.GeneratorExp(elt=nxt.body[0].test, generators=[ast.comprehension(target=nxt.target, iter=nxt.iter, ifs=[], is_async=0)])
                    new = ast.Assign(targets=[ast.Name(id=flag, ctx=ast.Store())], value=ast.Call(func=ast.Name(id='any', ctx=ast.Load()), args=[gen], keywords=[]), lineno=st.lineno)
                    res.append(ast.copy_location(new, st))
                    k += 2
                    continue
            for field in ('body', 'orelse', 'finalbody'):
                sub = getattr(st, field, None)
                if isinstance(sub, list) and sub and isinstance(sub[0], ast.stmt) and not isinstance(st, (ast.FunctionDef, ast.AsyncFunctionDef, ast.ClassDef)):
                    setattr(st, field, walk_block(sub))
            res.append(st)
            k += 1
        return res
    fn.body = walk_block(fn.body)
    ast.fix_missing_locations(fn)
    return fn


def norm_name(e: ast.AST) -> T.Optional[str]:
    return e.id if isinstance(e, ast.Name) else None


def index_loop_to_direct(fn: FuncNode, inplace: bool = False) -> FuncNode:
    """`for k in range(len(xs)): v = xs[k]; ...` (k not used otherwise) -> `for v in xs: ...`   (catalogue D1)."""
    fn = fn if inplace else copy.deepcopy(fn)
    for lp in [n for n in ast.walk(fn) if isinstance(n, ast.For)]:
        it = lp.iter
        if not (isinstance(lp.target, ast.Name) and isinstance(it, ast.Call) and isinstance(it.func, ast.Name) and it.func.id == 'range' and len(it.args) == 1
                and isinstance(it.args[0], ast.Call) and isinstance(it.args[0].func, ast.Name) and it.args[0].func.id == 'len' and len(it.args[0].args) == 1):
            continue
        k, xs = lp.target.id, it.args[0].args[0]
        first = lp.body[0] if lp.body else None
        if not (isinstance(first, ast.Assign) and len(first.targets) == 1 and isinstance(first.targets[0], ast.Name) and isinstance(first.value, ast.Subscript)
                and ast.dump(first.value.value) == ast.dump(xs) and isinstance(first.value.slice, ast.Name) and first.value.slice.id == k):
            continue
        uses = sum(1 for b in lp.body for n in ast.walk(b) if isinstance(n, ast.Name) and n.id == k)
        if uses != 1 or len(lp.body) < 2:
            continue
        lp.target = ast.copy_location(ast.Name(id=first.targets[0].id, ctx=ast.Store()), lp.target)
        lp.iter = xs
        lp.body = lp.body[1:]
    ast.fix_missing_locations(fn)
    return fn


def desugar_list_comp_assigns(fn: FuncNode, only_tables: bool = False, inplace: bool = False) -> FuncNode:
    """`xs = [ELT for v in it]` -> `xs = []; for v in it: xs.append(ELT)` with a conditional ELT split into if/else   (catalogue D3).
    With only_tables, only comprehensions that filter/map a constant table - a display of tuples, or a single-definition local
    bound to one - are rewritten (the loop is then unrolled by unroll_const_loops)."""
    fn = fn if inplace else copy.deepcopy(fn)
    defs = _single_defs(fn) if only_tables else {}

    def is_table(it: ast.AST) -> bool:
        if isinstance(it, ast.Name) and it.id in defs:
            it = defs[it.id]
        return isinstance(it, (ast.List, ast.Tuple)) and bool(it.elts) and all(isinstance(x, (ast.Tuple, ast.List)) for x in it.elts) and len(it.elts) <= 12

    def conv(st: ast.stmt) -> T.Optional[T.List[ast.stmt]]:
        tgt = st.targets[0] if isinstance(st, ast.Assign) and len(st.targets) == 1 else (st.target if isinstance(st, ast.AnnAssign) else None)
        if not (isinstance(tgt, ast.Name) and isinstance(getattr(st, 'value', None), ast.ListComp)):
            return None
        comp = st.value
        if len(comp.generators) != 1 or comp.generators[0].is_async or len(comp.generators[0].ifs) > 1:
            return None
        g = comp.generators[0]
        if only_tables and not is_table(g.iter):
            return None
        out = tgt.id
        if any(isinstance(n, ast.Name) and n.id == out for n in ast.walk(comp)):
            return None

        def app(e: ast.AST) -> ast.stmt:
            return ast.Expr(value=ast.Call(func=ast.Attribute(value=ast.Name(id=out, ctx=ast.Load()), attr='append', ctx=ast.Load()), args=[e], keywords=[]))
        inner: T.List[ast.stmt] = [ast.If(test=comp.elt.test, body=[app(comp.elt.body)], orelse=[app(comp.elt.orelse)])] if isinstance(comp.elt, ast.IfExp) else [app(comp.elt)]
        if g.ifs:
            inner = [ast.If(test=g.ifs[0], body=inner, orelse=[])]
        new = [ast.Assign(targets=[ast.Name(id=out, ctx=ast.Store())], value=ast.List(elts=[], ctx=ast.Load()), lineno=st.lineno),
               ast.For(target=g.target, iter=g.iter, body=inner, orelse=[], lineno=st.lineno)]
        for s in new:
            ast.copy_location(s, st)
        return new

    def walk_block(stmts: T.List[ast.stmt]) -> T.List[ast.stmt]:
        res: T.List[ast.stmt] = []
        for st in stmts:
            rep = conv(st)
            if rep is not None:
                res.extend(rep)
                continue
            for field in ('body', 'orelse', 'finalbody'):
                sub = getattr(st, field, None)
                if isinstance(sub, list) and sub and isinstance(sub[0], ast.stmt) and not isinstance(st, (ast.FunctionDef, ast.AsyncFunctionDef, ast.ClassDef)):
                    setattr(st, field, walk_block(sub))
            res.append(st)
        return res
    fn.body = walk_block(fn.body)
    ast.fix_missing_locations(fn)
    return fn


def desugar_map(fn: FuncNode, inplace: bool = False) -> FuncNode:
    """`map(f, xs)` -> `(f(_m) for _m in xs)` (one iterable; f any expression that is called)."""
    fn = fn if inplace else copy.deepcopy(fn)
    counter = [0]

    class _M(ast.NodeTransformer):
        def visit_Call(self, c: ast.Call) -> ast.AST:
            self.generic_visit(c)
            if isinstance(c.func, ast.Name) and c.func.id == 'map' and len(c.args) == 2 and not c.keywords and not any(isinstance(a, ast.Starred) for a in c.args):
                counter[0] += 1
                v = f'_m{counter[0]}'
                elt = ast.Call(func=c.args[0], args=[ast.Name(id=v, ctx=ast.Load())], keywords=[])
                gen = ast.GeneratorExp(elt=elt, generators=[ast.comprehension(target=ast.Name(id=v, ctx=ast.Store()), iter=c.args[1], ifs=[], is_async=0)])
                return ast.copy_location(gen, c)
            return c
    fn = _M().visit(fn)
    ast.fix_missing_locations(fn)
    return fn


def _is_partial(v: ast.AST, imps: T.Dict[str, str]) -> bool:
    """`partial(f, ...)` / `functools.partial(f, ...)` / an import alias of it, with plain arguments."""
    if not isinstance(v, ast.Call):
        return False
    f = v.func
    nm = f.id if isinstance(f, ast.Name) else (f.attr if isinstance(f, ast.Attribute) else '')
    if isinstance(f, ast.Name) and imps.get(f.id, '') == 'functools.partial':
        nm = 'partial'
    return nm == 'partial' and bool(v.args) and not any(isinstance(a, ast.Starred) for a in v.args) and all(k.arg for k in v.keywords)


def partial_bindings(mod: Module) -> T.Dict[str, ast.Call]:
    """Module-level `name = functools.partial(f, ...)` bindings."""
    out: T.Dict[str, ast.Call] = {}
    imps = mod.imports()
    for st in mod.tree.body:
        if isinstance(st, ast.Assign) and len(st.targets) == 1 and isinstance(st.targets[0], ast.Name) and _is_partial(st.value, imps):
            out[st.targets[0].id] = st.value
    return out


def expand_local_callables(fn: FuncNode, imps: T.Dict[str, str], inplace: bool = False) -> FuncNode:
    """Calls through a single-definition local that only names a callable are replaced by the call they stand for (catalogue A3):
    `p = partial(f, a, k=v); p(x)` -> `f(a, x, k=v)`;  `q = lambda x: E; q(a)` -> `E[x := a]`;  `g = f; g(x)` -> `f(x)`
    (f a name that is never assigned in the function, or an attribute chain on `self`).  The operands frozen by a partial / read by
    a lambda body must be names the function never rebinds (or constants), so the value read at the call equals the one at the definition."""
    defs = _single_defs(fn)
    params = {a.arg for a in fn.args.posonlyargs + fn.args.args + fn.args.kwonlyargs}
    stored = _stores([fn])                      # every name bound somewhere in the function (nested scopes included: conservative)
    unstable = (stored - set(defs)) | (stored & params)

    def stable(e: ast.AST, bound: T.AbstractSet[str] = frozenset()) -> bool:
        for n in ast.walk(e):
            if isinstance(n, ast.Name) and n.id not in bound and n.id in unstable:
                return False
            if isinstance(n, (ast.NamedExpr, ast.Await, ast.Yield, ast.YieldFrom)):
                return False
        return True
    partials: T.Dict[str, ast.Call] = {}
    lambdas: T.Dict[str, ast.Lambda] = {}
    aliases: T.Dict[str, ast.AST] = {}
    for nm, v in defs.items():
        if _is_partial(v, imps) and stable(v):
            partials[nm] = v      # type: ignore[assignment]
        elif isinstance(v, ast.Lambda):
            a = v.args
            ps = {x.arg for x in a.args}
            if not (a.vararg or a.kwarg or a.posonlyargs or a.kwonlyargs or a.defaults) and stable(v.body, ps):
                lambdas[nm] = v
        elif isinstance(v, ast.Name) and v.id not in stored and v.id not in params:
            aliases[nm] = v
        elif isinstance(v, ast.Attribute) and _simple(v) and isinstance(_root(v), ast.Name) and _root(v).id == 'self':      # type: ignore[attr-defined]
            aliases[nm] = v
    # a local whose only binding is `g = f` (f never bound in the function) may be defined anywhere, also inside a loop: every execution binds the same callable
    nstores: T.Dict[str, int] = {}
    for n in walk_no_nested(fn):
        if isinstance(n, ast.Name) and isinstance(n.ctx, (ast.Store, ast.Del)):
            nstores[n.id] = nstores.get(n.id, 0) + 1
    for st in walk_no_nested(fn):
        if isinstance(st, ast.Assign) and len(st.targets) == 1 and isinstance(st.targets[0], ast.Name) and isinstance(st.value, ast.Name) \
                and nstores.get(st.targets[0].id) == 1 and st.targets[0].id not in params and st.value.id not in stored and st.value.id not in params:
            aliases.setdefault(st.targets[0].id, st.value)
    if not (partials or lambdas or aliases):
        return fn
    fn = fn if inplace else copy.deepcopy(fn)

    class _P(ast.NodeTransformer):
        def visit_Call(self, c: ast.Call) -> ast.AST:
            self.generic_visit(c)
            f = c.func
            if not isinstance(f, ast.Name):
                return c
            if f.id in partials:
                b = partials[f.id]
                kws = {k.arg for k in c.keywords}
                new: ast.AST = ast.Call(func=copy.deepcopy(b.args[0]), args=[copy.deepcopy(a) for a in b.args[1:]] + list(c.args),
                                        keywords=[copy.deepcopy(k) for k in b.keywords if k.arg not in kws] + list(c.keywords))
                return ast.copy_location(new, c)
            if f.id in lambdas:
                lam = lambdas[f.id]
                ps = [x.arg for x in lam.args.args]
                if c.keywords or len(c.args) != len(ps) or any(isinstance(a, ast.Starred) for a in c.args):
                    return c
                uses: T.Dict[str, int] = {}
                for n in ast.walk(lam.body):
                    if isinstance(n, ast.Name):
                        uses[n.id] = uses.get(n.id, 0) + 1
                if any(not _simple(a) and uses.get(p, 0) > 1 for p, a in zip(ps, c.args)):
                    return c
                return ast.copy_location(_Sub(dict(zip(ps, c.args))).visit(copy.deepcopy(lam.body)), c)
            if f.id in aliases:
                c.func = ast.copy_location(copy.deepcopy(aliases[f.id]), f)
            return c
    fn = _P().visit(fn)
    ast.fix_missing_locations(fn)
    return fn


def _root(e: ast.AST) -> ast.AST:
    while isinstance(e, ast.Attribute):
        e = e.value
    return e


def expand_partials(fn: FuncNode, bindings: T.Dict[str, ast.Call], inplace: bool = False) -> FuncNode:
    """`p(x)` with `p = partial(f, a, k=v)` -> `f(a, x, k=v)`."""
    if not bindings:
        return fn
    fn = fn if inplace else copy.deepcopy(fn)
    local = {n.id for n in ast.walk(fn) if isinstance(n, ast.Name) and isinstance(n.ctx, ast.Store)}

    class _P(ast.NodeTransformer):
        def visit_Call(self, c: ast.Call) -> ast.AST:
            self.generic_visit(c)
            if isinstance(c.func, ast.Name) and c.func.id in bindings and c.func.id not in local:
                b = bindings[c.func.id]
                kws = {k.arg for k in c.keywords}
                new = ast.Call(func=copy.deepcopy(b.args[0]), args=[copy.deepcopy(a) for a in b.args[1:]] + list(c.args),
                               keywords=[copy.deepcopy(k) for k in b.keywords if k.arg not in kws] + list(c.keywords))
                return ast.copy_location(new, c)
            return c
    fn = _P().visit(fn)
    ast.fix_missing_locations(fn)
    return fn


# ---------------------------------------------------------------------------
# round 12 normal forms

def _negate(t: ast.AST) -> ast.AST:
    if isinstance(t, ast.UnaryOp) and isinstance(t.op, ast.Not):
        return t.operand
    if isinstance(t, ast.Compare) and len(t.ops) == 1:
        flip = {ast.Is: ast.IsNot, ast.IsNot: ast.Is, ast.Eq: ast.NotEq, ast.NotEq: ast.Eq, ast.In: ast.NotIn, ast.NotIn: ast.In,
                ast.Lt: ast.GtE, ast.GtE: ast.Lt, ast.Gt: ast.LtE, ast.LtE: ast.Gt}
        return ast.copy_location(ast.Compare(left=t.left, ops=[flip[type(t.ops[0])]()], comparators=t.comparators), t)
    return ast.copy_location(ast.UnaryOp(op=ast.Not(), operand=t), t)


def _own_jumps(body: T.List[ast.stmt], kinds: T.Tuple[type, ...]) -> T.List[ast.stmt]:
    """break/continue statements of `body` that belong to the loop whose body this is (not to a nested loop)."""
    out: T.List[ast.stmt] = []

    def go(stmts: T.List[ast.stmt]) -> None:
        for st in stmts:
            if isinstance(st, kinds):
                out.append(st)
            if isinstance(st, (ast.For, ast.While, ast.AsyncFor, ast.FunctionDef, ast.AsyncFunctionDef, ast.ClassDef)):
                go(getattr(st, 'orelse', []) if not isinstance(st, (ast.FunctionDef, ast.AsyncFunctionDef, ast.ClassDef)) else [])
                continue
            for field in ('body', 'orelse', 'finalbody'):
                sub = getattr(st, field, None)
                if isinstance(sub, list) and sub and isinstance(sub[0], ast.stmt):
                    go(sub)
            for hd in getattr(st, 'handlers', []):
                go(hd.body)
    go(body)
    return out


def rotate_primed_loops(fn: FuncNode, inplace: bool = False) -> FuncNode:
    """Loop-and-a-half and walrus-headed loops are read as the primed loop they abbreviate (catalogue D4/C6):
      `while True: v = E; if T: break; BODY`      ->  `v = E; while not T: BODY; v = E`
      `while (v := E) <op> X:` / `while v := E:`  ->  `v = E; while v <op> X: BODY; v = E`
    only when BODY has no `continue` of this loop (it would skip the re-evaluation) and, for the first form, no other `break`
    condition is lost (further breaks stay breaks)."""
    fn = fn if inplace else copy.deepcopy(fn)

    def conv(w: ast.stmt) -> T.Optional[T.List[ast.stmt]]:
        if not isinstance(w, ast.While) or w.orelse:
            return None
        t = w.test
        if isinstance(t, ast.Constant) and t.value is True and len(w.body) >= 2:
            a, g = w.body[0], w.body[1]
            if isinstance(a, ast.Assign) and len(a.targets) == 1 and isinstance(a.targets[0], ast.Name) \
                    and isinstance(g, ast.If) and not g.orelse and len(g.body) == 1 and isinstance(g.body[0], ast.Break) \
                    and not _own_jumps(w.body[2:], (ast.Continue,)):
                prime = a
                again = copy.deepcopy(a)
                new = ast.While(test=_negate(g.test), body=list(w.body[2:]) + [again], orelse=[])
                return [prime, ast.copy_location(new, w)]
            return None
        # walrus evaluated first and unconditionally in the loop test
        inner = t.operand if isinstance(t, ast.UnaryOp) and isinstance(t.op, ast.Not) else t
        ne = inner if isinstance(inner, ast.NamedExpr) else (inner.left if isinstance(inner, ast.Compare) and isinstance(inner.left, ast.NamedExpr) else None)
        if ne is None or not isinstance(ne.target, ast.Name) or _own_jumps(w.body, (ast.Continue,)):
            return None
        if sum(1 for n in ast.walk(t) if isinstance(n, ast.NamedExpr)) != 1:
            return None
        prime = ast.copy_location(ast.Assign(targets=[ast.Name(id=ne.target.id, ctx=ast.Store())], value=ne.value, lineno=w.lineno), w)

        class _R(ast.NodeTransformer):
            def visit_NamedExpr(self, n: ast.NamedExpr) -> ast.AST:
                return ast.copy_location(ast.Name(id=n.target.id, ctx=ast.Load()), n)      # type: ignore[attr-defined]
        new = ast.While(test=_R().visit(copy.deepcopy(t)), body=list(w.body) + [copy.deepcopy(prime)], orelse=[])
        return [prime, ast.copy_location(new, w)]

    def walk_block(stmts: T.List[ast.stmt]) -> T.List[ast.stmt]:
        res: T.List[ast.stmt] = []
        for st in stmts:
            for field in ('body', 'orelse', 'finalbody'):
                sub = getattr(st, field, None)
                if isinstance(sub, list) and sub and isinstance(sub[0], ast.stmt) and not isinstance(st, (ast.FunctionDef, ast.AsyncFunctionDef, ast.ClassDef)):
                    setattr(st, field, walk_block(sub))
            for hd in getattr(st, 'handlers', []):
                hd.body = walk_block(hd.body)
            rep = conv(st)
            if rep is not None:
                res.extend(rep)
            else:
                res.append(st)
        return res
    fn.body = walk_block(fn.body)
    ast.fix_missing_locations(fn)
    return fn


# ---------------------------------------------------------------------------
# round 13 normal forms

_BUILTIN_SELF_MATCH = {'bool', 'bytearray', 'bytes', 'dict', 'float', 'frozenset', 'int', 'list', 'set', 'str', 'tuple'}


def _pattern_test(p: ast.AST, subj: ast.AST) -> T.Optional[T.Tuple[T.Optional[ast.AST], T.List[str]]]:
    """(test expression or None when irrefutable, names bound to the whole subject) for the closed set of patterns that are
    plain type / value tests of the subject: `Cls()`, `builtin(name)`, `A() | B()`, a value, a singleton, `_`, a capture, `P as name`.
    None: the pattern destructures the subject (left to the engine, which gives up on it)."""
    def s() -> ast.AST:
        return copy.deepcopy(subj)
    if isinstance(p, ast.MatchAs):
        if p.pattern is None:
            return None, ([p.name] if p.name else [])
        inner = _pattern_test(p.pattern, subj)
        if inner is None:
            return None
        return inner[0], inner[1] + ([p.name] if p.name else [])
    if isinstance(p, ast.MatchClass) and not p.kwd_patterns:
        binds: T.List[str] = []
        if p.patterns:
            ok = len(p.patterns) == 1 and isinstance(p.cls, ast.Name) and p.cls.id in _BUILTIN_SELF_MATCH \
                and isinstance(p.patterns[0], ast.MatchAs) and p.patterns[0].pattern is None
            if not ok:
                return None
            if p.patterns[0].name:
                binds.append(p.patterns[0].name)
        return ast.Call(func=ast.Name(id='isinstance', ctx=ast.Load()), args=[s(), copy.deepcopy(p.cls)], keywords=[]), binds
    if isinstance(p, ast.MatchValue):
        return ast.Compare(left=s(), ops=[ast.Eq()], comparators=[copy.deepcopy(p.value)]), []
    if isinstance(p, ast.MatchSingleton):
        return ast.Compare(left=s(), ops=[ast.Is()], comparators=[ast.Constant(value=p.value)]), []
    if isinstance(p, ast.MatchOr):
        alts = [_pattern_test(q, subj) for q in p.patterns]
        if any(a is None or a[1] or a[0] is None for a in alts):
            return None
        tests = [a[0] for a in alts]            # type: ignore[index]
        if all(isinstance(t, ast.Call) and isinstance(t.func, ast.Name) and t.func.id == 'isinstance' for t in tests):
            classes: T.List[ast.AST] = []
            for t in tests:
                c = t.args[1]                   # type: ignore[attr-defined]
                classes += list(c.elts) if isinstance(c, ast.Tuple) else [c]
            return ast.Call(func=ast.Name(id='isinstance', ctx=ast.Load()), args=[s(), ast.Tuple(elts=classes, ctx=ast.Load())], keywords=[]), []
        return ast.BoolOp(op=ast.Or(), values=tests), []
    return None


def desugar_match(fn: FuncNode, inplace: bool = False) -> FuncNode:
    """`match <name>:` whose cases are plain type / value tests of the subject is read as the if/elif chain it abbreviates
    (`case Cls():` = isinstance, `case A() | B():` = isinstance with a tuple, `case 'v':` = equality, `case None:` = identity,
    `case _:` = else, `case P if g:` = P and g, a capture = an assignment at the head of the arm).  A match whose subject is
    not a plain name or one of whose patterns destructures the subject is left as it is."""
    if not any(isinstance(n, ast.Match) for n in ast.walk(fn)):
        return fn
    fn = fn if inplace else copy.deepcopy(fn)

    def conv(m: ast.stmt) -> T.Optional[T.List[ast.stmt]]:
        if not isinstance(m, ast.Match) or not isinstance(m.subject, ast.Name):
            return None
        arms: T.List[T.Tuple[T.Optional[ast.AST], T.List[ast.stmt]]] = []
        for case in m.cases:
            r = _pattern_test(case.pattern, m.subject)
            if r is None:
                return None
            test, binds = r
            if case.guard is not None:
                if binds:
                    return None            # the guard may read the capture
                test = copy.deepcopy(case.guard) if test is None else ast.BoolOp(op=ast.And(), values=[test, copy.deepcopy(case.guard)])
            pre: T.List[ast.stmt] = [ast.Assign(targets=[ast.Name(id=b, ctx=ast.Store())], value=copy.deepcopy(m.subject), lineno=case.pattern.lineno)
                                     for b in binds if b != m.subject.id]
            arms.append((test, pre + list(case.body)))
            if test is None:
                break                      # irrefutable: later cases are unreachable (a syntax error anyway)
        chain: T.List[ast.stmt] = []
        for test, body in reversed(arms):
            if test is None:
                chain = body
            else:
                chain = [ast.copy_location(ast.If(test=test, body=body, orelse=chain), m)]
        return chain or [ast.copy_location(ast.Pass(), m)]

    def walk_block(stmts: T.List[ast.stmt]) -> T.List[ast.stmt]:
        res: T.List[ast.stmt] = []
        for st in stmts:
            if isinstance(st, (ast.FunctionDef, ast.AsyncFunctionDef, ast.ClassDef)):
                res.append(st)
                continue
            for field in ('body', 'orelse', 'finalbody'):
                sub = getattr(st, field, None)
                if isinstance(sub, list) and sub and isinstance(sub[0], ast.stmt):
                    setattr(st, field, walk_block(sub))
            for hd in getattr(st, 'handlers', []):
                hd.body = walk_block(hd.body)
            for case in getattr(st, 'cases', []):
                case.body = walk_block(case.body)
            rep = conv(st)
            res.extend(rep if rep is not None else [st])
        return res
    fn.body = walk_block(fn.body)
    ast.fix_missing_locations(fn)
    return fn
