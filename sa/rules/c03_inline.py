"""Helper for the C03 pack: syntactic normalisations applied to a *copy* of a function before analysis.

  * inline_helpers: calls to private helpers of the same class / module are expanded in place (function inlining on
    the AST): expression-bodied helpers (`return EXPR`) anywhere, statement-bodied helpers where the call is the whole
    right side of `name = helper(...)` (early returns are converted to if/else assignments).  This is what makes the
    intraprocedural flow/table rules see through "extract method" refactorings.  A helper that cannot be inlined
    (loops with returns, try, yield, *args) is left as a call - the flow analysis then tags what passes through it as
    `via:` (opaque) and the rule ends undecided instead of reporting a violation.
  * inline_test_locals: a local with one definition that is a boolean expression over never-reassigned names is
    substituted into the branch tests that read it (`needs_quoting = a or b; if not needs_quoting:`).
  * comprehension_as_loop: `return [ELT for x in xs]` -> `out = []; for x in xs: out.append(ELT); return out` with a
    conditional ELT split into if/else.

Nothing is executed; the result is only ever parsed/walked by the rules.
"""
from __future__ import annotations

import ast
import copy
import typing as T

from ..core import Module, walk_no_nested, decorator_names

FuncNode = T.Union[ast.FunctionDef, ast.AsyncFunctionDef]


class _Sub(ast.NodeTransformer):
    def __init__(self, mapping: T.Dict[str, ast.AST], rename: T.Optional[T.Dict[str, str]] = None):
        self.mapping = mapping
        self.rename = rename or {}

    def visit_Name(self, n: ast.Name) -> ast.AST:
        if n.id in self.mapping and isinstance(n.ctx, ast.Load):
            return copy.deepcopy(self.mapping[n.id])
        if n.id in self.rename:
            return ast.copy_location(ast.Name(id=self.rename[n.id], ctx=n.ctx), n)
        return n


def _body_wo_doc(fn: FuncNode) -> T.List[ast.stmt]:
    b = list(fn.body)
    if b and isinstance(b[0], ast.Expr) and isinstance(b[0].value, ast.Constant) and isinstance(b[0].value.value, str):
        b = b[1:]
    return b


def _resolve(mod: Module, cls: T.Optional[str], call: ast.Call, exclude: T.Set[str]) -> T.Optional[T.Tuple[FuncNode, bool]]:
    """(helper, drop first parameter?)"""
    f = call.func
    if isinstance(f, ast.Name):
        if f.id in exclude or not mod.has_func(f.id):
            return None
        return mod.func(f.id), False
    if isinstance(f, ast.Attribute) and isinstance(f.value, ast.Name) and cls and f.value.id in ('self', 'cls', cls):
        q = f'{cls}.{f.attr}'
        if f.attr in exclude or not mod.has_func(q):
            return None
        h = mod.func(q)
        decs = decorator_names(h)
        if any(d not in ('staticmethod', 'classmethod') for d in decs):
            return None
        return h, 'staticmethod' not in decs
    return None


def _bind(h: FuncNode, call: ast.Call, drop_first: bool) -> T.Optional[T.Dict[str, ast.AST]]:
    a = h.args
    if a.vararg or a.kwarg or a.posonlyargs or any(isinstance(x, ast.Starred) for x in call.args) or any(k.arg is None for k in call.keywords):
        return None
    params = [x.arg for x in a.args]
    defaults: T.Dict[str, ast.AST] = dict(zip(params[len(params) - len(a.defaults):], a.defaults))
    for x, d in zip(a.kwonlyargs, a.kw_defaults):
        params.append(x.arg)
        if d is not None:
            defaults[x.arg] = d
    if drop_first:
        params = params[1:]
    if len(call.args) > len(params):
        return None
    out: T.Dict[str, ast.AST] = dict(zip(params, call.args))
    for k in call.keywords:
        if k.arg not in params or k.arg in out:
            return None
        out[k.arg] = k.value
    for p in params:
        if p not in out:
            if p not in defaults:
                return None
            out[p] = defaults[p]
    return out


def _simple(e: ast.AST) -> bool:
    while isinstance(e, ast.Attribute):
        e = e.value
    return isinstance(e, (ast.Name, ast.Constant))


def _stores(nodes: T.Iterable[ast.AST]) -> T.Set[str]:
    return {n.id for r in nodes for n in ast.walk(r) if isinstance(n, ast.Name) and isinstance(n.ctx, (ast.Store, ast.Del))}


def _plain(stmts: T.List[ast.stmt]) -> bool:
    for st in stmts:
        for n in ast.walk(st):
            if isinstance(n, (ast.Try, ast.With, ast.AsyncWith, ast.Yield, ast.YieldFrom, ast.Await, ast.FunctionDef, ast.AsyncFunctionDef, ast.Lambda,
                              ast.Global, ast.Nonlocal, ast.ClassDef)) or n.__class__.__name__ in ('TryStar', 'Match'):
                return False
            if isinstance(n, (ast.For, ast.While, ast.AsyncFor)) and any(isinstance(x, ast.Return) for x in ast.walk(n)):
                return False
    return True


def _conv(stmts: T.List[ast.stmt], target: str) -> T.List[ast.stmt]:
    """Replace `return X` by `target = X`, turning early returns into if/else."""
    if not stmts:
        return []
    st, rest = stmts[0], stmts[1:]
    if isinstance(st, ast.Return):
        v = st.value if st.value is not None else ast.Constant(value=None)
        if isinstance(v, ast.Name) and v.id == target:
            return []
        return [ast.copy_location(ast.Assign(targets=[ast.Name(id=target, ctx=ast.Store())], value=v, lineno=st.lineno), st)]
    if isinstance(st, ast.If) and any(isinstance(x, ast.Return) for x in ast.walk(st)):
        new = ast.If(test=st.test, body=_conv(list(st.body) + copy.deepcopy(rest), target) or [ast.Pass()],
                     orelse=_conv(list(st.orelse) + copy.deepcopy(rest), target))
        return [ast.copy_location(new, st)]
    return [st] + _conv(rest, target)


def _expr_bodied(h: FuncNode) -> T.Optional[ast.AST]:
    b = _body_wo_doc(h)
    if len(b) == 1 and isinstance(b[0], ast.Return) and b[0].value is not None and _plain(b):
        return b[0].value
    return None


def inline_helpers(mod: Module, fn: FuncNode, cls: T.Optional[str], exclude: T.Iterable[str] = (), passes: int = 2) -> FuncNode:
    fn = copy.deepcopy(fn)
    excl = set(exclude) | {fn.name}
    for _ in range(passes):
        changed = False
        caller_names = {n.id for n in ast.walk(fn) if isinstance(n, ast.Name)} | {a.arg for a in fn.args.args}

        def expand_stmt(st: ast.stmt) -> T.Optional[T.List[ast.stmt]]:
            if isinstance(st, ast.Assign) and len(st.targets) == 1 and isinstance(st.targets[0], ast.Name) and isinstance(st.value, ast.Call):
                target, call = st.targets[0].id, st.value
            elif isinstance(st, ast.AnnAssign) and isinstance(st.target, ast.Name) and isinstance(st.value, ast.Call):
                target, call = st.target.id, st.value
            else:
                return None
            r = _resolve(mod, cls, call, excl)
            if r is None:
                return None
            h, drop = r
            if _expr_bodied(h) is not None:
                return None          # handled at expression level
            body = copy.deepcopy(_body_wo_doc(h))
            binding = _bind(h, call, drop)
            if binding is None or not _plain(body) or not body:
                return None
            stored = _stores(body)
            pre: T.List[ast.stmt] = []
            mapping: T.Dict[str, ast.AST] = {}
            rename: T.Dict[str, str] = {}
            for p, a in binding.items():
                if _simple(a) and p not in stored:
                    mapping[p] = a
                else:
                    fresh = p if (p not in caller_names or (isinstance(a, ast.Name) and a.id == p)) else f'{p}__{h.name}'
                    if not (isinstance(a, ast.Name) and a.id == fresh):
                        pre.append(ast.copy_location(ast.Assign(targets=[ast.Name(id=fresh, ctx=ast.Store())], value=copy.deepcopy(a), lineno=st.lineno), st))
                    if fresh != p:
                        rename[p] = fresh
            for loc in stored - set(binding):
                if loc in caller_names:
                    rename[loc] = f'{loc}__{h.name}'
            body = [_Sub(mapping, rename).visit(s) for s in body]
            out = pre + _conv(body, target)
            for s in out:
                ast.fix_missing_locations(s)
            return out

        def walk_block(stmts: T.List[ast.stmt]) -> T.List[ast.stmt]:
            nonlocal changed
            res: T.List[ast.stmt] = []
            for st in stmts:
                rep = expand_stmt(st)
                if rep is not None:
                    changed = True
                    res.extend(rep)
                    continue
                for field in ('body', 'orelse', 'finalbody'):
                    sub = getattr(st, field, None)
                    if isinstance(sub, list) and sub and isinstance(sub[0], ast.stmt) and not isinstance(st, (ast.FunctionDef, ast.AsyncFunctionDef, ast.ClassDef)):
                        setattr(st, field, walk_block(sub))
                for hd in getattr(st, 'handlers', []):
                    hd.body = walk_block(hd.body)
                res.append(st)
            return res
        fn.body = walk_block(fn.body)

        class _E(ast.NodeTransformer):
            def visit_Call(self, c: ast.Call) -> ast.AST:
                nonlocal changed
                self.generic_visit(c)
                r = _resolve(mod, cls, c, excl)
                if r is None:
                    return c
                h, drop = r
                val = _expr_bodied(h)
                if val is None:
                    return c
                binding = _bind(h, c, drop)
                if binding is None:
                    return c
                uses: T.Dict[str, int] = {}
                for n in ast.walk(val):
                    if isinstance(n, ast.Name):
                        uses[n.id] = uses.get(n.id, 0) + 1
                if any(not _simple(a) and uses.get(p, 0) > 1 for p, a in binding.items()) or (_stores([val]) & set(binding)):
                    return c
                changed = True
                return ast.copy_location(_Sub(dict(binding)).visit(copy.deepcopy(val)), c)
        fn = _E().visit(fn)
        ast.fix_missing_locations(fn)
        if not changed:
            break
    return fn


def inline_test_locals(fn: FuncNode) -> FuncNode:
    fn = copy.deepcopy(fn)
    stores: T.Dict[str, int] = {}
    for n in walk_no_nested(fn):
        if isinstance(n, ast.Name) and isinstance(n.ctx, (ast.Store, ast.Del)):
            stores[n.id] = stores.get(n.id, 0) + 1
    in_loop = {id(x) for n in walk_no_nested(fn) if isinstance(n, (ast.For, ast.While, ast.AsyncFor)) for x in ast.walk(n)}
    cands: T.Dict[str, ast.AST] = {}
    for st in walk_no_nested(fn):
        if isinstance(st, ast.Assign) and len(st.targets) == 1 and isinstance(st.targets[0], ast.Name) and id(st) not in in_loop:
            nm, v = st.targets[0].id, st.value
            if stores.get(nm) != 1 or not isinstance(v, (ast.BoolOp, ast.Compare)) and not (isinstance(v, ast.UnaryOp) and isinstance(v.op, ast.Not)):
                continue
            if any(isinstance(x, (ast.Call, ast.Await, ast.NamedExpr, ast.Lambda)) for x in ast.walk(v)):
                continue
            if any(stores.get(x.id, 0) for x in ast.walk(v) if isinstance(x, ast.Name)):
                continue       # reads something that is (re)assigned in the function
            cands[nm] = v
    if not cands:
        return fn

    class _T(ast.NodeTransformer):
        def visit_If(self, n: ast.If) -> ast.AST:
            self.generic_visit(n)
            n.test = _Sub(cands).visit(n.test)
            return n

        def visit_While(self, n: ast.While) -> ast.AST:
            self.generic_visit(n)
            n.test = _Sub(cands).visit(n.test)
            return n

        def visit_IfExp(self, n: ast.IfExp) -> ast.AST:
            self.generic_visit(n)
            n.test = _Sub(cands).visit(n.test)
            return n
    fn = _T().visit(fn)
    ast.fix_missing_locations(fn)
    return fn


def comprehension_as_loop(fn: FuncNode, out: str = 'out__') -> T.Optional[FuncNode]:
    """`return [ELT for x in xs]` as the only statement -> explicit loop (None if the function has another shape)."""
    b = _body_wo_doc(fn)
    if not (len(b) == 1 and isinstance(b[0], ast.Return) and isinstance(b[0].value, ast.ListComp)):
        return None
    comp = b[0].value
    if len(comp.generators) != 1 or comp.generators[0].ifs or comp.generators[0].is_async:
        return None
    g = comp.generators[0]

    def app(e: ast.AST) -> ast.stmt:
        return ast.Expr(value=ast.Call(func=ast.Attribute(value=ast.Name(id=out, ctx=ast.Load()), attr='append', ctx=ast.Load()), args=[e], keywords=[]))
    if isinstance(comp.elt, ast.IfExp):
        inner: T.List[ast.stmt] = [ast.If(test=comp.elt.test, body=[app(comp.elt.body)], orelse=[app(comp.elt.orelse)])]
    else:
        inner = [app(comp.elt)]
    new = copy.deepcopy(fn)
    new.body = [ast.Assign(targets=[ast.Name(id=out, ctx=ast.Store())], value=ast.List(elts=[], ctx=ast.Load())),
                ast.For(target=copy.deepcopy(g.target), iter=copy.deepcopy(g.iter), body=copy.deepcopy(inner), orelse=[]),
                ast.Return(value=ast.Name(id=out, ctx=ast.Load()))]
    for s in new.body:
        ast.copy_location(s, b[0])
    ast.fix_missing_locations(new)
    return new
