"""C14 helper: on which aspects of its input line can the value returned by a per-line transformer depend?

A line is `indent + core + terminator` (indent = leading blanks, terminator = '', '\\n', '\\r\\n').
The property requires a transformer to reproduce indent and terminator, so its result must *depend*
on both.  This is a dependence (non-interference) analysis - data flow plus control dependence,
flow-insensitive, with summaries of the module's own callees:

  T   text whose *suffix* is still the line's suffix  (depends on the terminator, removable by rstrip/strip/split)
  I   text whose *prefix* is still the line's prefix  (depends on the indentation, removable by lstrip/strip/split)
  T*  depends on the terminator in some other way     (never removed)
  I*  depends on the indentation in some other way

Dependence is over-approximated (unknown operations keep/star every tag), so "no T / no I tag reaches
any returned expression or any branch condition" proves independence: two lines that differ only in
that aspect give the same result - a definite violation.  Nothing is evaluated.
"""
from __future__ import annotations

import ast
import typing as T

from ..core import Module, walk_no_nested

Tags = T.FrozenSet[str]
E: Tags = frozenset()
LINE: Tags = frozenset({'T', 'I'})
WS = ' \t\r\n\x0b\x0c'


def star(t: T.Iterable[str]) -> Tags:
    return frozenset(x if x.endswith('*') else x + '*' for x in t)


def _const_str(e: ast.AST) -> T.Optional[str]:
    return e.value if isinstance(e, ast.Constant) and isinstance(e.value, str) else None


class LineDep:
    def __init__(self, mod: Module, qn: str, line_param: str, env: T.Optional[T.Dict[str, Tags]] = None, depth: int = 0):
        self.mod = mod
        self.qn = qn
        self.fn = mod.func(qn)
        self.depth = depth
        self.env: T.Dict[str, Tags] = dict(env or {})
        self.env[line_param] = self.env.get(line_param, E) | LINE
        self.ctrl: Tags = E
        self.returns: T.List[T.Tuple[ast.Return, Tags]] = []
        self._run()

    # -- expressions --------------------------------------------------------------
    def union(self, nodes: T.Iterable[T.Optional[ast.AST]]) -> Tags:
        out: T.Set[str] = set()
        for n in nodes:
            if n is not None:
                out |= self.tags(n)
        return frozenset(out)

    def tags(self, e: ast.AST) -> Tags:
        if isinstance(e, ast.Constant):
            return E
        if isinstance(e, ast.Name):
            return self.env.get(e.id, E)
        if isinstance(e, ast.Call):
            return self.call(e)
        if isinstance(e, ast.Subscript):
            base = self.tags(e.value)
            s = e.slice
            if isinstance(s, ast.Slice):
                idiom = self._affix(e.value, s)
                if idiom is not None:
                    return frozenset(t for t in base if t.rstrip('*') == idiom)
                bounds = star(self.union([s.lower, s.upper, s.step]))
                lo, hi = s.lower, s.upper
                if s.step is None and hi is None and (lo is None or (isinstance(lo, ast.Constant) and isinstance(lo.value, int) and lo.value >= 0)):
                    # x[k:]: the suffix survives, the prefix does not
                    return frozenset(('I*' if t == 'I' else t) for t in base) | bounds
                if s.step is None and lo is None and isinstance(hi, ast.Constant) and isinstance(hi.value, int) and hi.value >= 0:
                    return frozenset(('T*' if t == 'T' else t) for t in base) | bounds
                if s.step is None and hi is None and lo is not None:
                    # x[expr:]: still a suffix of x
                    return frozenset(('I*' if t == 'I' else t) for t in base) | bounds
                if s.step is None and lo is None and hi is not None:
                    return frozenset(('T*' if t == 'T' else t) for t in base) | bounds
                return star(base) | bounds
            # element of a container: inherits; character of a text: starred
            return star(base) | star(self.tags(s)) if base & LINE else base | star(self.tags(s))
        if isinstance(e, ast.Compare):
            if len(e.ops) == 1 and isinstance(e.ops[0], (ast.In, ast.NotIn)):
                needle = _const_str(e.left)
                hay = self.tags(e.comparators[0])
                if needle is not None and needle:
                    out = set(hay)
                    if not any(c in needle for c in '\r\n'):
                        out.discard('T')       # an occurrence without CR/LF lies before the terminator
                    if not any(c in needle for c in WS):
                        out.discard('I')       # an occurrence without blanks lies after the indentation
                    return star(out)
            return star(self.union([e.left] + list(e.comparators)))
        if isinstance(e, ast.IfExp):
            return self.tags(e.body) | self.tags(e.orelse) | star(self.tags(e.test))
        if isinstance(e, ast.Attribute):
            return star(self.tags(e.value))
        if isinstance(e, (ast.ListComp, ast.SetComp, ast.GeneratorExp, ast.DictComp)):
            saved = dict(self.env)
            acc: T.Set[str] = set()
            for g in e.generators:
                t = self.tags(g.iter)
                for n in ast.walk(g.target):
                    if isinstance(n, ast.Name):
                        self.env[n.id] = t
                acc |= star(t)     # how many elements
                for c in g.ifs:
                    acc |= star(self.tags(c))
            if isinstance(e, ast.DictComp):
                acc |= self.tags(e.key) | self.tags(e.value)
            else:
                acc |= self.tags(e.elt)
            self.env = saved
            return frozenset(acc)
        if isinstance(e, (ast.Tuple, ast.List, ast.Set)):
            return self.union(e.elts)
        if isinstance(e, ast.Starred):
            return self.tags(e.value)
        if isinstance(e, ast.Lambda):
            return E
        # concatenation, formatting, arithmetic, f-strings ...: no longer a prefix/suffix of the line
        out2: T.Set[str] = set()
        for ch in ast.iter_child_nodes(e):
            if isinstance(ch, (ast.expr, ast.FormattedValue)):
                out2 |= self.tags(ch)
        return star(out2)

    @staticmethod
    def _affix(x: ast.AST, s: ast.Slice) -> T.Optional[str]:
        """`x[:len(x) - len(x.lstrip(..))]` is the leading blank run of x (depends on the indentation only);
        `x[len(x.rstrip(..)):]` is its trailing run (depends on the terminator only)."""
        def is_len_of(c: T.Optional[ast.AST], what: T.Optional[str]) -> bool:
            if not (isinstance(c, ast.Call) and isinstance(c.func, ast.Name) and c.func.id == 'len' and len(c.args) == 1):
                return False
            a = c.args[0]
            if what is None:
                return ast.dump(a) == ast.dump(x)
            return isinstance(a, ast.Call) and isinstance(a.func, ast.Attribute) and a.func.attr == what and ast.dump(a.func.value) == ast.dump(x) \
                and all(isinstance(k, ast.Constant) and isinstance(k.value, str) and not k.value.strip() for k in a.args) and not a.keywords
        if s.step is not None:
            return None
        if s.lower is None and isinstance(s.upper, ast.BinOp) and isinstance(s.upper.op, ast.Sub) and is_len_of(s.upper.left, None) and is_len_of(s.upper.right, 'lstrip'):
            return 'I'
        if s.upper is None and is_len_of(s.lower, 'rstrip'):
            return 'T'
        return None

    def call(self, e: ast.Call) -> Tags:
        args = list(e.args) + [k.value for k in e.keywords]
        a_t = star(self.union(args))
        f = e.func
        if isinstance(f, ast.Attribute):
            recv = self.tags(f.value)
            m = f.attr
            if not args:
                if m in ('split', 'strip'):
                    return frozenset(t for t in recv if t not in ('T', 'I'))
                if m == 'lstrip':
                    return frozenset(t for t in recv if t != 'I')
                if m == 'rstrip':
                    return frozenset(t for t in recv if t != 'T')
            if m == 'startswith' and len(args) == 1 and not e.keywords:
                p = _const_str(args[0])
                if p is not None and not any(c in p for c in '\r\n'):
                    # a prefix test against a constant without CR/LF cannot observe the terminator
                    return star(t for t in recv if t != 'T')
            return star(recv) | a_t
        if isinstance(f, ast.Name):
            q = self.resolve(f.id)
            if q is not None and self.depth < 4:
                callee = self.mod.func(q)
                names = [a.arg for a in callee.args.posonlyargs + callee.args.args]
                env = dict(self.env) if q.startswith(self.qn + '.') else {}
                for n in names:
                    env[n] = E
                ok = True
                for i, a in enumerate(e.args):
                    if isinstance(a, ast.Starred) or i >= len(names):
                        ok = False
                        break
                    env[names[i]] = self.tags(a)
                for k in e.keywords:
                    if k.arg is None or k.arg not in names + [x.arg for x in callee.args.kwonlyargs]:
                        ok = False
                        break
                    env[k.arg] = self.tags(k.value)
                if ok:
                    sub = LineDep.__new__(LineDep)
                    sub.mod, sub.qn, sub.fn, sub.depth = self.mod, q, callee, self.depth + 1
                    sub.env, sub.ctrl, sub.returns = env, E, []
                    sub._run()
                    out: T.Set[str] = set(sub.ctrl)
                    for _, t in sub.returns:
                        out |= t
                    return frozenset(out)
            if f.id in ('len', 'bool', 'int', 'str', 'repr', 'list', 'tuple', 'sorted', 'set', 'isinstance', 'any', 'all', 'min', 'max', 'enumerate', 'zip'):
                return a_t
        return a_t | star(self.tags(f)) if not isinstance(f, ast.Name) else a_t

    def resolve(self, name: str) -> T.Optional[str]:
        parts = self.qn.split('.')
        for i in range(len(parts), -1, -1):
            q = '.'.join(parts[:i] + [name])
            if self.mod.has_func(q):
                return q
        return None

    # -- statements (flow-insensitive fixpoint) --------------------------------------
    def _bind(self, target: ast.AST, t: Tags) -> None:
        for n in ast.walk(target):
            if isinstance(n, ast.Name):
                self.env[n.id] = self.env.get(n.id, E) | t

    def _run(self) -> None:
        body = [n for n in walk_no_nested(self.fn, include_root=False)]
        for _ in range(4):
            for st in body:
                if isinstance(st, ast.Assign):
                    t = self.tags(st.value)
                    for tg in st.targets:
                        self._bind(tg, t)
                elif isinstance(st, ast.AnnAssign) and st.value is not None:
                    self._bind(st.target, self.tags(st.value))
                elif isinstance(st, ast.AugAssign):
                    self._bind(st.target, star(self.tags(st.value)))
                elif isinstance(st, (ast.For, ast.AsyncFor)):
                    it = self.tags(st.iter)
                    self._bind(st.target, it)
                    self.ctrl |= star(it)
                elif isinstance(st, (ast.If, ast.While)):
                    self.ctrl |= star(self.tags(st.test))
                elif isinstance(st, ast.Assert):
                    self.ctrl |= star(self.tags(st.test))
                elif isinstance(st, ast.Try) and st.handlers:
                    # whether a handler is entered depends on what the guarded expressions depend on
                    for s in st.body:
                        for n in walk_no_nested(s):
                            if isinstance(n, (ast.Call, ast.Subscript)):
                                self.ctrl |= star(self.tags(n))
                elif isinstance(st, ast.Expr) and isinstance(st.value, ast.Call) and isinstance(st.value.func, ast.Attribute) \
                        and st.value.func.attr in ('append', 'extend', 'add', 'update', 'insert'):
                    base: ast.AST = st.value.func.value
                    while isinstance(base, (ast.Attribute, ast.Subscript)):
                        base = base.value
                    if isinstance(base, ast.Name):
                        self.env[base.id] = self.env.get(base.id, E) | self.union(st.value.args)
        self.returns = [(st, self.tags(st.value) if st.value is not None else E) for st in body if isinstance(st, ast.Return)]

    # -- verdict -------------------------------------------------------------------------
    def independent(self, aspect: str) -> T.List[ast.Return]:
        """Return statements whose value provably does not depend on the aspect ('T' terminator / 'I' indentation);
        empty when a branch condition depends on it (then nothing is claimed)."""
        if any(t.rstrip('*') == aspect for t in self.ctrl):
            return []
        return [st for st, t in self.returns if not any(x.rstrip('*') == aspect for x in t)]

    def observed_by_control(self, aspect: str) -> bool:
        return any(t.rstrip('*') == aspect for t in self.ctrl)


__all__ = ['LineDep']
