"""C01.R1 - grammar ladder of mparser.Parser (DESIGN section 2 C01.R1, data sheet A.1).

For every parser level the decision table over its token atoms is extracted on all paths (loops unrolled up
to three times by sa.paths): a row is (accept()/expect() atoms that hold, in order) -> (normalised shape of the
returned expression, locals resolved to their reaching definitions by c01_sym).  The shape talks about *node
fields* (positional constructor arguments bound to fields through the node constructors) and about operand
calls numbered in evaluation order.  The table is compared with the reference ladder below, which encodes the
language reference (Syntax.md precedence list / the statement of C01): nothing in it is copied from the source.
"""
from __future__ import annotations

import ast
import typing as T

from ..core import Module, Repo, Undecided, AnchorMissing, norm, short
from ..report import RuleCtx
from ..cfg import CFG
from .. import tables
from ..tables import Atom
from .c01_sym import SymPath, sym_paths, is_call, show, private_helpers, fold_expr

MPARSER = 'mesonbuild/mparser.py'

OPERAND_METHODS = {f'e{i}' for i in range(1, 11)} | {'statement', 'args', 'key_values', 'method_call', 'index_call'}
PARSE_ERRORS = {'ParseException', 'BlockParseException'}


# ---------------------------------------------------------------------------
# node constructors: positional parameter -> field
# ---------------------------------------------------------------------------

def mro_cached(repo: Repo, mod: Module, name: str) -> T.List[T.Tuple[Module, ast.ClassDef]]:
    """Class linearisation by name (Repo.mro caches per Repo object, so an overlay never sees another tree's hierarchy)."""
    return repo.mro(mod, mod.cls(name))


def is_node_class(repo: Repo, mod: Module, name: str) -> bool:
    if not mod.has_cls(name):
        return False
    return any(c.name == 'BaseNode' for _, c in mro_cached(repo, mod, name))


def ctor_binding(repo: Repo, mod: Module, clsname: str, _depth: int = 0) -> T.List[T.Tuple[str, T.Optional[str]]]:
    """[(constructor parameter, field it is stored in | None)] in positional order."""
    cls = mod.cls(clsname)
    chain = mro_cached(repo, mod, clsname)
    owner_i = None
    init = None
    for i, (m, c) in enumerate(chain):
        for st in c.body:
            if isinstance(st, ast.FunctionDef) and st.name == '__init__':
                owner_i, init = i, st
                break
        if init is not None:
            break
    if init is None or owner_i is None:
        raise Undecided(f'{clsname}: no constructor found')
    params = [a.arg for a in init.args.args[1:]]
    bind: T.Dict[str, T.Optional[str]] = {p: None for p in params}
    for st in init.body:
        if isinstance(st, ast.Assign) and len(st.targets) == 1 and isinstance(st.targets[0], ast.Attribute) \
                and isinstance(st.targets[0].value, ast.Name) and st.targets[0].value.id == 'self' and isinstance(st.value, ast.Name) \
                and st.value.id in bind:
            if bind[st.value.id] is None:
                bind[st.value.id] = st.targets[0].attr
        elif isinstance(st, ast.Expr) and isinstance(st.value, ast.Call) and isinstance(st.value.func, ast.Attribute) and st.value.func.attr == '__init__':
            call = st.value
            recv = call.func.value
            args = list(call.args)
            parent: T.Optional[str] = None
            if isinstance(recv, ast.Call) and norm(recv.func) == 'super':
                for m, c in chain[owner_i + 1:]:
                    if any(isinstance(s, ast.FunctionDef) and s.name == '__init__' for s in c.body):
                        parent = c.name
                        break
            elif isinstance(recv, ast.Name):
                parent = recv.id
                args = args[1:]
            if parent and parent != 'BaseNode' and mod.has_cls(parent) and _depth < 4:
                pb = ctor_binding(repo, mod, parent, _depth + 1)
                for a, (pp, pf) in zip(args, pb):
                    if isinstance(a, ast.Name) and a.id in bind and bind[a.id] is None:
                        bind[a.id] = pf
    return [(p, bind[p]) for p in params]


# ---------------------------------------------------------------------------
# shapes
# ---------------------------------------------------------------------------

ROLE_KEYS = {'COMPARISON_MAP': {'equal', 'nequal', 'lt', 'le', 'gt', 'ge', 'in'}, 'ADDSUB_MAP': {'plus', 'dash'}, 'MULDIV_MAP': {'star', 'fslash', 'percent'},
             'ALL_STRINGS': {'string', 'fstring', 'multiline_string', 'multiline_fstring'}}


def table_role(repo: Repo, mod: Module, name: str) -> str:
    """Role of a named token table, decided by its folded keys (a private constant may be renamed): the reference table it overlaps most."""
    roles: T.Dict[str, str] = repo.__dict__.setdefault('_c01_roles', {})
    back: T.Dict[str, str] = repo.__dict__.setdefault('_c01_role_of', {})
    if name in back:
        return back[name]
    role = name
    try:
        keys = set(fold_expr(repo, mod, ast.Name(id=name, ctx=ast.Load())))
        best = max(ROLE_KEYS, key=lambda r: (len(ROLE_KEYS[r] & keys), -len(ROLE_KEYS[r] ^ keys)))
        if len(ROLE_KEYS[best] & keys) >= len(ROLE_KEYS[best] ^ keys) and ROLE_KEYS[best] & keys:      # mostly the reference ids, not a table that merely shares one
            role = best
    except (Undecided, TypeError, AnchorMissing):
        pass
    back[name] = role
    roles.setdefault(role, name)
    return role


def actual_name(repo: Repo, role: str) -> str:
    return repo.__dict__.get('_c01_roles', {}).get(role, role)


def O(meth: str, i: int, *args: T.Any) -> T.Tuple[T.Any, ...]:
    return ('operand', meth, i, tuple(args))


def N(cls: str, **fields: T.Any) -> T.Tuple[T.Any, ...]:
    return ('node', cls, tuple(sorted(fields.items())))


def table_value(repo: Repo, mod: Module, table: str, key: str) -> T.Optional[T.Any]:
    """Term of the entry `table[key]` of a constant dict display (node classes stay names; records are NamedTuple / tuple displays)."""
    if not mod.has_assign(table):
        return None
    v = mod.assign_value(table)
    if isinstance(v, ast.Call) and len(v.args) == 1 and not v.keywords and norm(v.func) in ('dict', 'MappingProxyType', 'types.MappingProxyType'):
        v = v.args[0]
    if not isinstance(v, ast.Dict):
        return None
    hit = [val for k, val in zip(v.keys, v.values) if isinstance(k, ast.Constant) and k.value == key]
    if len(hit) != 1 or any(k is None or not isinstance(k, ast.Constant) for k in v.keys):
        return None
    return entry_term(repo, mod, hit[0])

def entry_term(repo: Repo, mod: Module, e: ast.AST) -> T.Optional[T.Any]:
    if isinstance(e, ast.Constant):
        return ('const', e.value)
    if isinstance(e, ast.Name):
        return ('name', e.id)
    if isinstance(e, (ast.Tuple, ast.List)):
        el = [entry_term(repo, mod, x) for x in e.elts]
        return None if any(x is None for x in el) else ('tuple', tuple(el))
    if isinstance(e, ast.Call) and isinstance(e.func, ast.Name) and mod.has_cls(e.func.id) and not is_node_class(repo, mod, e.func.id):
        # a record class (NamedTuple / dataclass): fields in declaration order
        fields = [st.target.id for st in mod.cls(e.func.id).body if isinstance(st, ast.AnnAssign) and isinstance(st.target, ast.Name)]
        vals: T.Dict[str, T.Any] = {}
        for f, x in list(zip(fields, e.args)) + [(k.arg, k.value) for k in e.keywords if k.arg]:
            vals[f] = entry_term(repo, mod, x)
        if len(e.args) > len(fields) or any(x is None for x in vals.values()) or any(f not in fields for f in vals):
            return None
        return ('record', tuple((f, vals[f]) for f in fields if f in vals))
    return None

def resolve_with(repo: Repo, mod: Module, t: T.Any, keyof: T.Callable[[T.Any], T.Optional[str]]) -> T.Any:
    """TABLE[<accepted token>] / its unpacked item / its record field, for a token id fixed by the case split."""
    if not isinstance(t, tuple) or not t:
        return t
    if t[0] == 'sub' and isinstance(t[1], tuple) and t[1][0] == 'name' and is_call(t[2], 'self.accept_any') and keyof(t[2]) is not None:
        v = table_value(repo, mod, t[1][1], T.cast(str, keyof(t[2])))
        return t if v is None else v
    if t[0] == 'item' and isinstance(t[2], int):
        base = resolve_with(repo, mod, t[1], keyof)
        if isinstance(base, tuple) and base[0] == 'tuple' and t[2] < len(base[1]):
            return base[1][t[2]]
        if isinstance(base, tuple) and base[0] == 'record' and t[2] < len(base[1]):
            return base[1][t[2]][1]
    if t[0] == 'attr':
        base = resolve_with(repo, mod, t[1], keyof)
        if isinstance(base, tuple) and base[0] == 'record' and t[2] in dict(base[1]):
            return dict(base[1])[t[2]]
    if t[0] == 'sub' and isinstance(t[2], tuple) and t[2][0] == 'const' and isinstance(t[2][1], int):
        base = resolve_with(repo, mod, t[1], keyof)
        if isinstance(base, tuple) and base[0] == 'tuple' and 0 <= t[2][1] < len(base[1]):
            return base[1][t[2][1]]
        if isinstance(base, tuple) and base[0] == 'record' and 0 <= t[2][1] < len(base[1]):
            return base[1][t[2][1]][1]
    return t


def pairing_table_keys(mod: Module, t: T.Any) -> T.Optional[T.Tuple[str, T.Tuple[str, ...]]]:
    """(table, its token ids) when the term reads a constant pairing table with the token an accept_any call returned (through items / fields)."""
    while isinstance(t, tuple) and t and t[0] in ('item', 'attr', 'sub'):
        if t[0] == 'sub' and isinstance(t[1], tuple) and t[1][0] == 'name' and is_call(t[2], 'self.accept_any') and mod.has_assign(t[1][1]):
            v = mod.assign_value(t[1][1])
            if isinstance(v, ast.Dict) and v.keys and all(isinstance(k, ast.Constant) and isinstance(k.value, str) for k in v.keys):
                return t[1][1], tuple(k.value for k in v.keys)      # type: ignore[union-attr]
            return None
        t = t[1]
    return None



class Summary:
    """tokens consumed / shape returned by one symbolic path of a parser method."""

    def __init__(self, ctx: RuleCtx, mod: Module, qn: str, sp: SymPath, case: T.Optional[T.Dict[int, str]] = None):
        self.ctx, self.mod, self.qn, self.sp = ctx, mod, qn, sp
        repo = ctx.repo
        self.repo = repo
        # accept_any over a table that is not one of the reference operator tables (a pairing table token id -> node class / message, or a
        # literal tuple of ids) is read as one case per token id the table declares (policy form c): `case` fixes the id of each such call
        self.case: T.Dict[int, str] = dict(case or {})
        self.open: T.List[T.Tuple[int, T.Tuple[str, ...]]] = []
        self.operands = [a.term for a in sp.actions if a.kind == 'call' and a.term[2].startswith('self.')
                         and a.term[2][5:] in OPERAND_METHODS and a.term[3] is None]
        self.ord = {t[1]: i + 1 for i, t in enumerate(self.operands)}
        # tokens
        truth: T.Dict[int, bool] = {}
        for t, v in sp.conds():
            if is_call(t) and t[2] in ('self.accept', 'self.accept_any'):
                truth[t[1]] = v
        toks: T.List[T.Tuple[int, T.Any]] = []
        for a in sp.actions:
            if a.kind != 'call':
                continue
            t = a.term
            if t[2] in ('self.accept', 'self.accept_any'):
                if t[1] not in truth:
                    # the last accept of a path that raises/returns before testing it cannot matter
                    raise Undecided(f'{qn}: the result of {show(t)} is not tested directly on path `{sp.describe()[:120]}`')
                if truth[t[1]]:
                    tok = self._narrow(t, self._tokarg(t))
                    keys = self._open_keys(t, tok)
                    if isinstance(tok, str) and t[2] == 'self.accept_any':
                        self.case[t[1]] = tok
                    elif keys is not None:
                        if t[1] in self.case:
                            tok = self.case[t[1]]
                        else:
                            self.open.append((t[1], keys))
                    toks.append((t[1], tok))
            elif t[2] in ('self.expect', 'self.block_expect'):
                toks.append((t[1], self._tokarg(t)))
        self.tok_seq = toks
        self.tokens = tuple(x for _, x in toks)

    def _open_keys(self, call: T.Any, tok: T.Any) -> T.Optional[T.Tuple[str, ...]]:
        """Token ids of an accept_any(<pairing table | literal tuple>) call that is not over a reference operator table; None: keep the table reading."""
        if call[2] != 'self.accept_any' or not call[4]:
            return None
        a = call[4][0]
        if isinstance(tok, tuple) and tok[0] == 'anyof':
            if a[0] == 'name' and table_role(self.repo, self.mod, a[1]) in ROLE_KEYS:
                return None
            return tuple(tok[1])
        if isinstance(tok, tuple) and tok[0] == 'any' and a[0] == 'name' and tok[1] not in ROLE_KEYS:
            try:
                keys = fold_expr(self.repo, self.mod, ast.Name(id=a[1], ctx=ast.Load()))
            except (Undecided, TypeError, AnchorMissing):
                # the entries may be records this folder does not evaluate: the keys of the display are enough
                v = self.mod.assign_value(a[1]) if self.mod.has_assign(a[1]) else None
                if not isinstance(v, ast.Dict) or not all(isinstance(k, ast.Constant) for k in v.keys):
                    return None
                keys = [k.value for k in v.keys]        # type: ignore[union-attr]
            if isinstance(keys, (dict, set, frozenset, tuple, list)) and keys and all(isinstance(k, str) for k in keys):
                return tuple(sorted(keys))
        return None

    def resolve(self, t: T.Any) -> T.Any:
        """TABLE[<accepted token>] / its unpacked item / its record field, for the token id fixed by the case split."""
        return resolve_with(self.repo, self.mod, t, lambda call: self.case.get(call[1]))

    def _narrow(self, call: T.Any, tok: T.Any) -> T.Any:
        """accept_any(TABLE) returns the token id: comparisons of that result with constants on the path narrow the table to the ids still possible."""
        if call[2] != 'self.accept_any' or not call[4]:
            return tok
        if isinstance(tok, tuple) and tok[0] == 'anyof':
            keys = set(tok[1])          # a literal tuple of token ids
        elif call[4][0][0] != 'name':
            return tok
        else:
            try:
                keys = set(fold_expr(self.ctx.repo, self.mod, ast.Name(id=call[4][0][1], ctx=ast.Load())))
            except (Undecided, TypeError):
                return tok
        narrowed = False
        for t, v in self.sp.conds():
            if isinstance(t, tuple) and t[0] == 'op' and t[1] in ('Eq', 'NotEq', 'In', 'NotIn') and len(t[2]) == 2 and call in t[2][:1]:
                other = t[2][1]
                if t[1] in ('Eq', 'NotEq') and other[0] == 'const':
                    members = {other[1]}
                elif t[1] in ('In', 'NotIn') and other[0] in ('tuple', 'list', 'set') and all(x[0] == 'const' for x in other[1]):
                    members = {x[1] for x in other[1]}
                else:
                    raise Undecided(f'{self.qn}: the accepted token is compared with {show(other)}')
                keep = (t[1] in ('Eq', 'In')) == v
                keys = keys & members if keep else keys - members
                narrowed = True
        if not narrowed:
            return tok
        if len(keys) == 1:
            return next(iter(keys))
        if not keys:
            raise Undecided(f'{self.qn}: an infeasible combination of token comparisons')
        return ('anyof', tuple(sorted(keys)))

    def _const(self, a: T.Any) -> T.Any:
        """A free name that folds to a str/bool/None constant (a literal hoisted into a module constant) is that literal."""
        if isinstance(a, tuple) and len(a) == 2 and a[0] == 'name' and isinstance(a[1], str) and '.' not in a[1] and self.mod.has_assign(a[1]):
            try:
                v = fold_expr(self.ctx.repo, self.mod, ast.Name(id=a[1], ctx=ast.Load()))
            except Undecided:
                return a
            if isinstance(v, (str, bool)) or v is None:
                return ('const', v)
        return a

    def _tokarg(self, t: T.Any) -> T.Any:
        if not t[4] and not t[5]:
            raise Undecided(f'{self.qn}: {show(t)} without token argument')
        a = self._const(t[4][0] if t[4] else t[5][0][1])
        if a[0] == 'const' and isinstance(a[1], str):
            return a[1]
        if a[0] == 'name' and t[2] == 'self.accept_any':
            return ('any', table_role(self.ctx.repo, self.mod, a[1]))
        if a[0] in ('tuple', 'list', 'set') and t[2] == 'self.accept_any' and a[1] and all(x[0] == 'const' and isinstance(x[1], str) for x in a[1]):
            return ('anyof', tuple(sorted(x[1] for x in a[1])))
        # TABLE[<token accepted before>]: a constant pairing table read with a token id that the comparisons on the path have narrowed to one key
        if a[0] == 'sub' and a[1][0] == 'name' and is_call(a[2], 'self.accept_any') and self.mod.has_assign(a[1][1]):
            key = self._narrow(a[2], None)
            try:
                table = fold_expr(self.ctx.repo, self.mod, ast.Name(id=a[1][1], ctx=ast.Load()))
            except Undecided:
                table = None
            if isinstance(key, str) and isinstance(table, dict) and isinstance(table.get(key), str):
                return table[key]
        raise Undecided(f'{self.qn}: token argument of {show(t)} is not a literal or a named table')

    def shape(self, t: T.Any) -> T.Any:
        if not isinstance(t, tuple):
            return ('?', repr(t))
        t = self.resolve(t)
        k = t[0]
        if k == 'const':
            return ('const', t[1])
        if k == 'name':
            if t[1] in ('self.current', 'self.previous'):
                return 'tok'
            c = self._const(t)
            return c if c[0] == 'const' else ('name', t[1])
        if k == 'call':
            fname, args = t[2], t[4]
            if fname == 'self.create_node' and args:
                args = (self.resolve(args[0]),) + tuple(args[1:])
            if fname == 'self.create_node' and args and args[0][0] == 'name' and is_node_class(self.repo, self.mod, args[0][1]):
                return self._node(args[0][1], args[1:], t[5])
            if t[3] is None and is_node_class(self.repo, self.mod, fname):
                return self._node(fname, args, t[5])
            if t[3] is None and fname.startswith('self.') and fname[5:] in OPERAND_METHODS:
                return ('operand', fname[5:], self.ord[t[1]], tuple(self.shape(a) for a in args))
            return ('call', fname, tuple(self.shape(a) for a in args))
        if k == 'sub' and t[1][0] == 'name' and is_call(t[2], 'self.accept_any') and t[2][4] and t[2][4][0] == t[1]:
            return ('mapped', table_role(self.repo, self.mod, t[1][1]))
        return ('?', show(t))

    def _node(self, cls: str, args: T.Sequence[T.Any], kws: T.Sequence[T.Tuple[str, T.Any]]) -> T.Any:
        if cls == 'SymbolNode':
            return 'sym'
        binding = ctor_binding(self.repo, self.mod, cls)
        fields: T.Dict[str, T.Any] = {}
        if len(args) > len(binding):
            raise Undecided(f'{self.qn}: {cls} constructed with {len(args)} arguments, constructor takes {len(binding)}')
        for a, (p, f) in zip(args, binding):
            fields[f or '~' + p] = self.shape(a)
        bd = dict(binding)
        for kname, v in kws:
            fields[bd.get(kname) or '~' + kname] = self.shape(v)
        return ('node', cls, tuple(sorted(fields.items())))


def semantic(shape: T.Any) -> T.Any:
    """Drop layout-only fields (symbol nodes, position tokens) from a node shape, recursively."""
    if isinstance(shape, tuple) and shape and shape[0] == 'node':
        return ('node', shape[1], tuple((f, semantic(v)) for f, v in shape[2] if v not in ('sym', 'tok')))
    if isinstance(shape, tuple) and shape and shape[0] == 'operand':
        return ('operand', shape[1], shape[2], tuple(semantic(a) for a in shape[3]))
    return shape


def fmt(shape: T.Any) -> str:
    if isinstance(shape, tuple) and shape and shape[0] == 'node':
        return f'{shape[1]}(' + ', '.join(f'{f}={fmt(v)}' for f, v in shape[2]) + ')'
    if isinstance(shape, tuple) and shape and shape[0] == 'operand':
        a = ('(' + ', '.join(fmt(x) for x in shape[3]) + ')') if shape[3] else ''
        return f'{shape[1]}#{shape[2]}{a}'
    if isinstance(shape, tuple) and shape and shape[0] == 'mapped':
        return f'{shape[1]}[token]'
    if isinstance(shape, tuple) and shape and shape[0] == 'const':
        return repr(shape[1])
    return str(shape)


def fmt_tokens(toks: T.Sequence[T.Any]) -> str:
    return ' '.join(t if isinstance(t, str) else f'<{t[1]}>' for t in toks) or '<nothing>'


# ---------------------------------------------------------------------------
# reference ladder (from the statement of C01 / Syntax.md; A.1 lists the same facts as confirmed on the tree)
# ---------------------------------------------------------------------------

def _binary(cls: str, tok: T.Any, nxt: str, mapped: T.Optional[str] = None) -> T.Dict[T.Tuple[T.Any, ...], T.Any]:
    extra = {'operation': ('mapped', mapped)} if mapped else {}
    one = N(cls, left=O(nxt, 1), right=O(nxt, 2), **extra)
    two = N(cls, left=one, right=O(nxt, 3), **extra)
    return {(): O(nxt, 1), (tok,): one, (tok, tok): two}


LADDER: T.Dict[str, T.Dict[str, T.Any]] = {
    'statement': {'table': {(): O('e1', 1)}},
    # 1: assignment / ternary; right-hand sides recurse into e1; target / condition one level up
    'e1': {'table': {
        (): O('e2', 1),
        ('plusassign',): N('PlusAssignmentNode', var_name=O('e2', 1), value=O('e1', 2)),
        ('assign',): N('AssignmentNode', var_name=O('e2', 1), value=O('e1', 2)),
        ('questionmark', 'colon'): N('TernaryNode', condition=O('e2', 1), trueblock=O('e1', 2), falseblock=O('e1', 3)),
    }, 'guards': {('plusassign',): (O('e2', 1), 'IdNode'), ('assign',): (O('e2', 1), 'IdNode')}},
    # 2, 3: or / and, left associative
    'e2': {'table': _binary('OrNode', 'or', 'e3'), 'loop': True},
    'e3': {'table': _binary('AndNode', 'and', 'e4'), 'loop': True},
    # 4: comparison, both operands one level up, NO chaining
    'e4': {'table': {
        (): O('e5', 1),
        (('any', 'COMPARISON_MAP'),): N('ComparisonNode', ctype=('mapped', 'COMPARISON_MAP'), left=O('e5', 1), right=O('e5', 2)),
        ('not', 'in'): N('ComparisonNode', ctype=('const', 'not in'), left=O('e5', 1), right=O('e5', 2)),
    }, 'optional': {('not',): O('e5', 1)}},      # `a not` without `in`: C02.R1's business (F01); returning the operand or raising are both fine here
    # 5, 6: + -  and  * / %, left associative
    'e5': {'table': _binary('ArithmeticNode', ('any', 'ADDSUB_MAP'), 'e6', 'ADDSUB_MAP'), 'loop': True},
    'e6': {'table': _binary('ArithmeticNode', ('any', 'MULDIV_MAP'), 'e7', 'MULDIV_MAP'), 'loop': True},
    # 7: unary not / -, operand is level 8: NO stacking
    'e7': {'table': {
        (): O('e8', 1),
        ('not',): N('NotNode', value=O('e8', 1)),
        ('dash',): N('UMinusNode', value=O('e8', 1)),
    }},
    # 9: parentheses / array / dict
    'e9': {'table': {
        (): O('e10', 1),
        ('lparen', 'rparen'): N('ParenthesizedNode', inner=O('statement', 1)),
        ('lbracket', 'rbracket'): N('ArrayNode', args=O('args', 1)),
        ('lcurl', 'rcurl'): N('DictNode', args=O('key_values', 1)),
    }},
    'index_call': {'table': {('rbracket',): N('IndexNode', iobject=('name', 'PARAM1'), index=O('statement', 1))}},
}
TOKEN_TABLES = {'COMPARISON_MAP': {'equal', 'nequal', 'lt', 'le', 'gt', 'ge', 'in'},       # must be accepted at level 4
                'ADDSUB_MAP': {'plus', 'dash'}, 'MULDIV_MAP': {'star', 'fslash', 'percent'}}
E10 = {('true',): ('BooleanNode', True), ('false',): ('BooleanNode', False), ('id',): ('IdNode', None), ('number',): ('NumberNode', None),
       (('any', 'ALL_STRINGS'),): ('StringNode', None), (): ('EmptyNode', None)}


def _summaries(ctx: RuleCtx, mod: Module, meth: str, unroll: int = 3) -> T.Tuple[T.List[Summary], T.List[Summary]]:
    fn = mod.func(f'Parser.{meth}')
    rets: T.List[Summary] = []
    raises: T.List[Summary] = []
    for sp in sym_paths(fn, unroll=unroll, helpers=parser_helpers(mod), mod=mod):
        s0 = Summary(ctx, mod, f'Parser.{meth}', sp)
        cases: T.List[T.Dict[int, str]] = [{}]
        for seq, keys in s0.open:
            cases = [{**c, seq: k} for c in cases for k in keys]
        if len(cases) > 64:
            raise Undecided(f'Parser.{meth}: {len(cases)} token cases on one path')
        for s in ([s0] if not s0.open else [Summary(ctx, mod, f'Parser.{meth}', sp, c) for c in cases]):
            if sp.outcome == 'return':
                rets.append(s)
            elif sp.outcome == 'raise':
                raises.append(s)
            elif sp.outcome == 'fall':
                rets.append(s)
            else:
                raise Undecided(f'Parser.{meth}: path ends by {sp.outcome}')
    return rets, raises


def _check_raises(ctx: RuleCtx, mod: Module, qn: str, raises: T.List[Summary]) -> None:
    for s in raises:
        r = s.sp.result
        name = r[2] if is_call(r) else show(r)
        if name not in PARSE_ERRORS:
            raise Undecided(f'{qn}: a path raises {name}, not a parse error')


def _rename_params(fn: ast.FunctionDef, shape: T.Any) -> T.Any:
    params = [a.arg for a in fn.args.args[1:]]

    def rec(s: T.Any) -> T.Any:
        if isinstance(s, tuple) and len(s) == 2 and s[0] == 'name' and s[1] in params:
            return ('name', f'PARAM{params.index(s[1]) + 1}')
        if isinstance(s, tuple):
            return tuple(rec(x) for x in s)
        return s
    return rec(shape)


def _opaque_self_calls(shape: T.Any) -> T.List[str]:
    """Parts of a result shape that were not understood: calls that are neither node constructions nor grammar operands, unresolved terms."""
    out: T.List[str] = []
    if isinstance(shape, tuple):
        if len(shape) == 3 and shape[0] == 'call' and isinstance(shape[1], str):
            out.append(shape[1])
        elif len(shape) == 2 and shape[0] == '?':
            out.append(str(shape[1])[:60])
        for x in shape:
            out += _opaque_self_calls(x)
    return out


PARSER_VOCABULARY = OPERAND_METHODS | {'accept', 'accept_any', 'expect', 'block_expect', 'create_node', 'getsym', 'getline', 'parse', 'line', 'codeblock',
                                       'ifblock', 'elseifblock', 'elseblock', 'foreachblock', 'testcaseblock'}


def parser_helpers(mod: Module) -> T.Dict[str, ast.FunctionDef]:
    """Methods of Parser that are not part of the grammar vocabulary: candidates for extracted blocks (spliced back before path enumeration)."""
    return {s.name: s for s in mod.cls('Parser').body if isinstance(s, ast.FunctionDef) and s.name not in PARSER_VOCABULARY and not s.name.startswith('__')
            and not s.decorator_list}


def check_level(ctx: RuleCtx, mod: Module, meth: str) -> None:
    ref = LADDER[meth]
    table: T.Dict[T.Tuple[T.Any, ...], T.Any] = ref['table']
    optional: T.Dict[T.Tuple[T.Any, ...], T.Any] = ref.get('optional', {})
    qn = f'Parser.{meth}'
    fn = mod.func(qn)
    rets, raises = _summaries(ctx, mod, meth)
    _check_raises(ctx, mod, qn, raises)
    derived: T.Dict[T.Tuple[T.Any, ...], T.Dict[T.Any, Summary]] = {}
    for s in rets:
        sh = _rename_params(fn, semantic(s.shape(s.sp.result)))
        derived.setdefault(s.tokens, {})[sh] = s
    maxlen = max(len(k) for k in table)
    optoks = {t for k in table for t in k}
    for toks, shapes in derived.items():
        if toks in table:
            want = table[toks]
        elif toks in optional:
            want = optional[toks]
        elif ref.get('loop') and len(toks) > maxlen and set(toks) <= optoks:
            continue        # a deeper unrolling of the same loop
        else:
            s = next(iter(shapes.values()))
            unknown = [t for t in toks if isinstance(t, tuple) and (t[0] == 'anyof' or t[1] not in ROLE_KEYS)]
            if unknown:
                raise Undecided(f'{qn}: tokens are accepted through the table {unknown[0][1]}, whose role this rule cannot relate to the reference grammar')
            ctx.violation(mod, qn, f'{meth}: tokens {fmt_tokens(toks)}',
                          f'level {meth} accepts the token sequence `{fmt_tokens(toks)}` (yielding {fmt(next(iter(shapes)))}); the reference grammar '
                          f'allows only {sorted(fmt_tokens(k) for k in table)} at this level', s.sp.last_node)
            continue
        for sh, s in shapes.items():
            if sh != want and _opaque_self_calls(sh):
                raise Undecided(f'{qn}: the tree is built through {_opaque_self_calls(sh)}, which this rule cannot see into')
            ctx.require(sh == want, f'{meth}: `{fmt_tokens(toks)}` -> {fmt(want)}', mod, qn, f'{meth}: tokens {fmt_tokens(toks)} -> {fmt(sh)}',
                        f'after `{fmt_tokens(toks)}` level {meth} returns {fmt(sh)}; the reference ladder requires {fmt(want)} '
                        f'(operands are numbered in evaluation order)', s.sp.last_node)
            g = ref.get('guards', {}).get(toks)
            if g is not None:
                opshape, cls = g
                ok = False
                for t, v in s.sp.conds():
                    if v and is_call(t, 'isinstance') and len(t[4]) == 2 and t[4][1] == ('name', cls) and semantic(s.shape(t[4][0])) == opshape:
                        ok = True
                ctx.require(ok, f'{meth}: `{fmt_tokens(toks)}` only with {fmt(opshape)} an {cls}', mod, qn, f'{meth}: guard {cls} on {fmt_tokens(toks)}',
                            f'a path builds {fmt(sh)} without having tested isinstance({fmt(opshape)}, {cls})', s.sp.last_node)
    for toks, want in table.items():
        if toks not in derived:
            ctx.violation(mod, qn, f'{meth}: tokens {fmt_tokens(toks)} missing',
                          f'level {meth} has no path that consumes `{fmt_tokens(toks)}` and returns a tree; the reference ladder requires {fmt(want)}', fn)
    # the named token tables must contain (at least) the documented operator tokens of the level
    for t in sorted({t for toks in table for t in toks if isinstance(t, tuple)}):
        if True:
            if t[1] in TOKEN_TABLES:
                tname = actual_name(ctx.repo, t[1])
                keys = set(fold_expr(ctx.repo, mod, ast.Name(id=tname, ctx=ast.Load())))
                need = TOKEN_TABLES[t[1]]
                extra_ok = {'not in'} if t[1] == 'COMPARISON_MAP' else set()
                ctx.require(need <= keys and keys - need <= extra_ok, f'{meth}: token table {tname} = {sorted(keys)}', mod, '<module>', f'{tname} token ids',
                            f'{tname} accepts token ids {sorted(keys)}; level {meth} of the reference grammar takes exactly {sorted(need)}', mod.assign_value(tname))


def check_ternary_flag(ctx: RuleCtx, mod: Module) -> None:
    """K1: `in_ternary` is tested before, true during both arm parses, reset after."""
    qn = 'Parser.e1'
    rets, raises = _summaries(ctx, mod, 'e1')
    # the flag is found by role: the attribute that the `?` paths set to a boolean constant
    flags = {a.term[0] for s in rets + raises if 'questionmark' in s.tokens for a in s.sp.actions
             if a.kind == 'write' and a.term[1][0] == 'const' and isinstance(a.term[1][1], bool)}
    if len(flags) > 1:
        raise Undecided(f'Parser.e1: several boolean flags are written on the ternary path: {sorted(flags)}')
    if not flags:
        fn1 = mod.func(qn)
        known = {'self.' + m for m in PARSER_VOCABULARY} | {'isinstance', 'ParseException'}
        for s in rets:
            if 'questionmark' not in s.tokens:
                continue
            if any(t[4] or t[5] for t in s.operands if t[2] == 'self.e1') or any(isinstance(n, (ast.With, ast.AsyncWith, ast.Try)) for n in ast.walk(fn1)) \
                    or any(a.kind == 'call' and a.term[2] not in known and not is_node_class(ctx.repo, mod, a.term[2]) for a in s.sp.actions):
                raise Undecided('Parser.e1: no boolean flag guards the ternary arms and the `?` path uses constructs (arguments, with/try, other calls) '
                                'that may reject nested ternaries in another way')
    FLAG = next(iter(flags)) if flags else 'self.in_ternary'
    n = 0
    for s in rets:
        if 'questionmark' not in s.tokens:
            # no other path may leave the flag set
            ws = s.sp.writes(FLAG)
            ctx.require(not ws or ws[-1] == ('const', False), f'e1 `{fmt_tokens(s.tokens)}`: in_ternary untouched', mod, qn,
                        f'in_ternary after {fmt_tokens(s.tokens)}', 'a non-ternary path of e1 leaves in_ternary set', s.sp.last_node)
            continue
        n += 1
        state: T.Any = 'unset'
        tested = False
        bad: T.List[str] = []
        rec = [t for t in s.operands if t[2] == 'self.e1']
        rec_seq = {t[1] for t in rec}
        for a in s.sp.actions:
            if a.kind == 'cond' and a.term == ('name', FLAG):
                if a.val is False and state == 'unset':
                    tested = True
                elif a.val is True:
                    bad.append('returns a ternary although in_ternary was set')
            elif a.kind == 'write' and a.term[0] == FLAG:
                state = a.term[1]
            elif a.kind == 'call' and a.term[1] in rec_seq:
                if state != ('const', True):
                    bad.append(f'arm parse {show(a.term)} runs with in_ternary = {show(state) if state != "unset" else "not set"}')
                if not tested:
                    bad.append('arm parse before in_ternary was tested')
        if state != ('const', False):
            bad.append('in_ternary is not reset to False after the false arm')
        if len(rec) != 2:
            bad.append(f'{len(rec)} recursive arm parses')
        ctx.require(not bad, 'e1 ternary path: in_ternary tested, set during both arm parses, reset afterwards', mod, qn, 'in_ternary protocol',
                    'nested-ternary guard broken: ' + '; '.join(bad), s.sp.last_node)
    ctx.floor('ternary paths of e1', n, 1)
    rej = [s for s in raises if 'questionmark' in s.tokens and any(t == ('name', FLAG) and v for t, v in s.sp.conds())]
    ok = bool(rej) and all(not [t for t in s.operands if t[2] == 'self.e1'] for s in rej)
    ctx.require(ok, 'e1: `?` while in_ternary raises before parsing an arm', mod, qn, 'nested ternary rejected',
                'no path rejects `?` while in_ternary is set (nested ternary must be a parse error)', mod.func(qn))


def check_e8(ctx: RuleCtx, mod: Module) -> None:
    qn = 'Parser.e8'
    fn = mod.func(qn)
    rets, raises = _summaries(ctx, mod, 'e8', unroll=3)
    _check_raises(ctx, mod, qn, raises)
    seen: T.Set[str] = set()
    done: T.Set[T.Any] = set()
    n = 0
    for s in rets:
        toks = list(s.tokens)
        exp: T.Any = O('e9', 1)
        k = 1
        i = 0
        call = False
        if toks[:2] == ['lparen', 'rparen']:
            k += 1
            exp = N('FunctionNode', func_name=exp, args=O('args', k))
            i = 2
            call = True
        okseq = True
        for t in toks[i:]:
            k += 1
            if t == 'dot':
                exp = O('method_call', k, exp)
            elif t == 'lbracket':
                exp = O('index_call', k, exp)
            else:
                okseq = False
            seen.add(t)
        got = semantic(s.shape(s.sp.result))
        if (s.tokens, got) in done:
            continue
        done.add((s.tokens, got))
        if not okseq:
            ctx.violation(mod, qn, f'e8: tokens {fmt_tokens(toks)}', f'level e8 consumes `{fmt_tokens(toks)}`; the reference allows `( args )` once, then any number of `.`/`[`',
                          s.sp.last_node)
            continue
        n += 1
        ctx.require(got == exp, f'e8: `{fmt_tokens(toks)}` -> {fmt(exp)}', mod, qn, f'e8: tokens {fmt_tokens(toks)} -> {fmt(got)}',
                    f'after `{fmt_tokens(toks)}` e8 returns {fmt(got)}; reference {fmt(exp)}', s.sp.last_node)
        if call:
            ok = any(v and is_call(t, 'isinstance') and t[4][1] == ('name', 'IdNode') and semantic(s.shape(t[4][0])) == O('e9', 1) for t, v in s.sp.conds())
            ctx.require(ok, 'e8: a call is built only on a plain id', mod, qn, 'e8: guard IdNode on call',
                        'FunctionNode is built without testing that the callee is an IdNode', s.sp.last_node)
    ctx.floor('e8 postfix paths', n, 4)
    ctx.require({'dot', 'lbracket'} <= seen, 'e8: method call and indexing are postfix operators of level 8', mod, qn, 'e8 postfix operators',
                f'level 8 accepts only {sorted(seen)} after the primary; `.` and `[` are required', fn)
    # repetition: every postfix operator can follow every other one (a.b().c(), a[0][1], a[0].b(), a.b()[0])
    pairs = {(a, b) for s in rets for a, b in zip(s.tokens, s.tokens[1:])}
    if any(_opaque_self_calls(semantic(s.shape(s.sp.result))) for s in rets):
        raise Undecided(f'{qn}: postfix parsing continues in a helper this rule cannot see into')
    for pr in (('dot', 'dot'), ('dot', 'lbracket'), ('lbracket', 'dot'), ('lbracket', 'lbracket')):
        ctx.require(pr in pairs, f'e8: `{pr[0]}` can be followed by `{pr[1]}`', mod, qn, f'e8 repetition {pr[0]} {pr[1]}',
                    f'no path of e8 accepts `{pr[1]}` after `{pr[0]}`: postfix operators must be repeatable in any order', fn)


def check_method_call(ctx: RuleCtx, mod: Module) -> None:
    qn = 'Parser.method_call'
    fn = mod.func(qn)
    rets, raises = _summaries(ctx, mod, 'method_call')
    _check_raises(ctx, mod, qn, raises)
    base = N('MethodNode', source_object=('name', 'PARAM1'), name=O('e10', 1), args=O('args', 2))
    n = 0
    for s in rets:
        got = _rename_params(fn, semantic(s.shape(s.sp.result)))
        if s.tokens == ('lparen', 'rparen'):
            want: T.Any = base
        elif s.tokens == ('lparen', 'rparen', 'dot'):
            want = O('method_call', 3, base)
        else:
            ctx.violation(mod, qn, f'method_call: tokens {fmt_tokens(s.tokens)}', f'method_call consumes `{fmt_tokens(s.tokens)}`; reference: `( args )` then optionally `.`', s.sp.last_node)
            continue
        n += 1
        ctx.require(got == want, f'method_call: `{fmt_tokens(s.tokens)}` -> {fmt(want)}', mod, qn, f'method_call: {fmt_tokens(s.tokens)} -> {fmt(got)}',
                    f'method_call returns {fmt(got)}; reference {fmt(want)}', s.sp.last_node)
        ok = any(v and is_call(t, 'isinstance') and t[4][1] == ('name', 'IdNode') and semantic(s.shape(t[4][0])) == O('e10', 1) for t, v in s.sp.conds())
        ctx.require(ok, 'method_call: the method name is a plain id', mod, qn, 'method_call: guard IdNode', 'MethodNode is built without testing that the name is an IdNode', s.sp.last_node)
    ctx.floor('method_call paths', n, 2)


def check_e10(ctx: RuleCtx, mod: Module) -> None:
    qn = 'Parser.e10'
    fn = mod.func(qn)
    rets, raises = _summaries(ctx, mod, 'e10')
    _check_raises(ctx, mod, qn, raises)
    seen = set()
    for s in rets:
        got = s.shape(s.sp.result)
        if s.tokens not in E10:
            ctx.violation(mod, qn, f'e10: tokens {fmt_tokens(s.tokens)}', f'level 10 consumes `{fmt_tokens(s.tokens)}`, which is not a plain token of the reference grammar', s.sp.last_node)
            continue
        seen.add(s.tokens)
        cls, val = E10[s.tokens]
        ok = isinstance(got, tuple) and got[0] == 'node' and got[1] == cls
        ctx.require(ok, f'e10: `{fmt_tokens(s.tokens)}` -> {cls}', mod, qn, f'e10: {fmt_tokens(s.tokens)} -> {fmt(got)}',
                    f'token `{fmt_tokens(s.tokens)}` yields {fmt(got)}; reference: {cls}', s.sp.last_node)
        if ok and val is not None:
            # the literal's value is written to the token handed to the node
            res = s.sp.result
            arg = res[4][1] if res[2] == 'self.create_node' else res[4][0]
            ws = s.sp.writes(f'{arg[1]}.value') if arg[0] == 'name' else []
            ctx.require(bool(ws) and ws[-1] == ('const', val), f'e10: literal `{s.tokens[0]}` has the value {val}', mod, qn, f'e10: value of {s.tokens[0]}',
                        f'the token of the `{s.tokens[0]}` literal gets the value {show(ws[-1]) if ws else "<unchanged text>"}; reference {val}', s.sp.last_node)
        if ok and cls == 'StringNode':
            res = s.sp.result
            kw = [v for k, v in res[5] if k == 'escape'] + list(res[4][2:] if res[2] == 'self.create_node' else res[4][1:])
            kw = [v for v in kw if s._const(v) != ('const', True)]        # the default made explicit
            if any(v[0] != 'const' for v in kw):
                raise Undecided(f'{qn}: escape argument of StringNode is computed: {show(kw[0])}')
            ctx.require(not kw, 'e10: string literals are built with escape decoding enabled (default)', mod, qn, 'e10: StringNode escape argument',
                        f'the parser builds string literals with escape={show(kw[0]) if kw else ""}', s.sp.last_node)
    for toks in E10:
        if toks not in seen:
            ctx.violation(mod, qn, f'e10: tokens {fmt_tokens(toks)} missing', f'level 10 has no path for `{fmt_tokens(toks)}` -> {E10[toks][0]}', fn)
    sname = actual_name(ctx.repo, 'ALL_STRINGS')
    strings = fold_expr(ctx.repo, mod, ast.Name(id=sname, ctx=ast.Load()))
    ctx.require(set(strings) == {'string', 'fstring', 'multiline_string', 'multiline_fstring'}, f'{sname} = {sorted(strings)}', mod, '<module>', 'string token kinds',
                f'{sname} is {sorted(strings)}; the four string token kinds are string, fstring, multiline_string, multiline_fstring', mod.assign_value(sname))


def _row_result(r: tables.Row) -> T.Tuple[T.Any, ...]:
    """Outcome of a row with a returned boolean expression read per world: a result that is (the negation of) one of the row's own atoms has
    the truth value the row fixes for that atom (`matched = tid == s; ...; return matched`)."""
    if r.outcome[0] == 'return':
        try:
            e = ast.parse(r.outcome[1], mode='eval').body
        except SyntaxError:
            return r.outcome
        if not isinstance(e, ast.Constant):
            a, pol = tables.canon(e, True)
            if a in r.conds:
                return ('return', str(r.conds[a] == pol))
    return r.outcome


def _judge_row(ctx: RuleCtx, mod: Module, qn: str, what: str, key: str, r: tables.Row, want_outcome: T.Tuple[T.Any, ...], want_effects: T.Tuple[str, ...]) -> None:
    got = _row_result(r)
    if got != want_outcome and got[0] == 'return':
        try:
            understood = isinstance(ast.parse(got[1], mode='eval').body, ast.Constant) or got[1] == want_outcome[-1]
        except SyntaxError:
            understood = False
        if not understood and want_outcome[0] == 'return':
            raise Undecided(f'{qn}: a row returns `{got[1]}`, an expression this rule cannot read per world')
    ctx.require((got, r.effects) == (want_outcome, want_effects), what, mod, qn, key, f'{qn} row `{r!r}`; reference: {want_outcome} with effects {want_effects}',
                r.path.events[-1].node if r.path.events else None)


def _raised_class(mod: Module, qn: str, what: str, _depth: int = 0) -> str:
    """`raise self.helper(..)` / `raise helper(..)`: the class every return of the error-building helper constructs (closed-world reading of the
    helper: all its returns are looked at); a local class deriving from a parse error counts as that parse error.  Not resolvable -> Undecided."""
    if what in PARSE_ERRORS:
        return what
    if mod.has_cls(what):
        for b in mod.cls(what).bases:
            if norm(b) in PARSE_ERRORS or (isinstance(b, ast.Name) and mod.has_cls(b.id) and _depth < 3 and _raised_class(mod, qn, b.id, _depth + 1) in PARSE_ERRORS):
                return norm(b) if norm(b) in PARSE_ERRORS else 'ParseException'
        return what
    helper: T.Optional[ast.FunctionDef] = None
    if what.startswith('self.') and '.' not in what[5:]:
        helper = next((s for s in mod.cls('Parser').body if isinstance(s, ast.FunctionDef) and s.name == what[5:]), None)
    elif '.' not in what:
        helper = next((s for s in mod.tree.body if isinstance(s, ast.FunctionDef) and s.name == what), None)
    if helper is None and '.' not in what and not any(isinstance(s, (ast.Assign, ast.AnnAssign)) and what in {norm(t) for t in getattr(s, 'targets', [getattr(s, 'target', None)]) if t is not None}
                                                      for s in mod.tree.body):
        return what         # an exception class of another module / a builtin: not a parse error of this module
    if helper is None or _depth >= 3:
        raise Undecided(f'{qn}: raises the result of {what}, which this rule cannot resolve to an exception class')
    rets = [n for n in ast.walk(helper) if isinstance(n, ast.Return)]
    classes = set()
    for n in rets:
        if not isinstance(n.value, ast.Call):
            raise Undecided(f'{qn}: the error helper {what} returns `{short(n.value) if n.value else None}`, not a constructed exception')
        classes.add(_raised_class(mod, qn, norm(n.value.func), _depth + 1))
    if len(classes) != 1:
        raise Undecided(f'{qn}: the error helper {what} returns {sorted(classes) or "nothing"}')
    return next(iter(classes))


def check_accept(ctx: RuleCtx, mod: Module) -> None:
    """accept / accept_any / expect: consume exactly when the token matches."""
    def eff(st: ast.AST) -> T.Optional[str]:
        if isinstance(st, ast.Expr) and isinstance(st.value, ast.Call):
            return norm(st.value)
        return None
    fn = mod.func('Parser.accept')
    tab = tables.extract(fn, effects=eff, name='Parser.accept')
    match = Atom('cmp', ('eq', 'ARG1', 'self.current.tid'))
    alt = Atom('cmp', ('eq', 'self.current.tid', 'ARG1'))
    for r in tab.rows:
        v = r.conds.get(match, r.conds.get(alt))
        if not r.conds and 'self.getsym()' in r.effects:
            ctx.violation(mod, 'Parser.accept', 'accept: token consumed unconditionally', 'accept advances to the next token on a row that does not depend on whether the current token matches', fn)
            continue
        if v is None or len(r.conds) != 1:
            raise Undecided(f'Parser.accept: unknown row {r!r}')
        want = (('return', 'True'), ('self.getsym()',)) if v else (('return', 'False'), ())
        _judge_row(ctx, mod, 'Parser.accept', f'accept: token {"matches -> consumed, True" if v else "differs -> untouched, False"}', f'accept row match={v}', r, want[0], want[1])
    ctx.floor('accept rows', len(tab.rows), 2)
    fn = mod.func('Parser.accept_any')
    tab = tables.extract(fn, effects=eff, name='Parser.accept_any')
    a_in = Atom('in', ('self.current.tid', 'ARG1'))
    for r in tab.rows:
        v = r.conds.get(a_in)
        if v is None or len(r.conds) != 1:
            raise Undecided(f'Parser.accept_any: unknown row {r!r}')
        want = (('return', 'self.current.tid'), ('self.getsym()',)) if v else (('return', "''"), ())
        _judge_row(ctx, mod, 'Parser.accept_any', f'accept_any: token {"in table -> consumed, its id" if v else "not in table -> untouched, empty"}', f'accept_any row in={v}', r, want[0], want[1])
    ctx.floor('accept_any rows', len(tab.rows), 2)
    for name in ('expect', 'block_expect'):
        fn = mod.func(f'Parser.{name}')
        tab = tables.extract(fn, name=f'Parser.{name}')
        for r in tab.rows:
            acc = [(a, v) for a, v in r.conds.items() if a.kind == 'truth' and a.args[0] == 'self.accept(ARG1)']
            if len(acc) != 1 or len(r.conds) != 1:
                raise Undecided(f'Parser.{name}: unknown row {r!r}')
            v = acc[0][1]
            got = _row_result(r)
            if not v and got[0] == 'raise' and got[1] not in PARSE_ERRORS:
                got = ('raise', _raised_class(mod, f'Parser.{name}', got[1]))
            ok = got == ('return', 'True') if v else (got[0] == 'raise' and got[1] in PARSE_ERRORS)
            if not ok and v and got[0] == 'return' and got[1] not in ('True', 'False', 'None'):
                raise Undecided(f'Parser.{name}: a row returns `{got[1]}`, an expression this rule cannot read per world')
            ctx.require(ok, f'{name}: {"accepted -> True" if v else "otherwise a parse error"}', mod, f'Parser.{name}', f'{name} row accepted={v}',
                        f'{name} row `{r!r}` - a missing token must raise a parse error', r.path.events[-1].node)


def r1(ctx: RuleCtx) -> None:
    mod = ctx.repo.module(MPARSER)
    for meth in ('statement', 'e1', 'e2', 'e3', 'e4', 'e5', 'e6', 'e7', 'e9', 'index_call'):
        check_level(ctx, mod, meth)
    check_ternary_flag(ctx, mod)
    check_e8(ctx, mod)
    check_method_call(ctx, mod)
    check_e10(ctx, mod)
    check_accept(ctx, mod)
    ctx.floor('grammar levels', 10, 10)
