"""C13.R5, caller side: typestate *consumed-after-native*.

A family method that works on `X = self.copy() if flag else self` and changes the list through X is a read for the
caller only when the copy is requested; without it the receiver itself is changed ("consumed").  Reading or rendering a
consumed object again hands out arguments the first rendering invented.  Decided per function over its CFG; parameters
that are consumed become summaries (one fixpoint), so `elem.add_item(name, args)` consumes `args`.
"""
from __future__ import annotations

import ast
import re
import typing as T

from ..cfg import CFG
from ..core import Module, Undecided, attr_chain, norm, walk_no_nested

FuncNode = T.Union[ast.FunctionDef, ast.AsyncFunctionDef]


class Spec(T.NamedTuple):
    """A consuming method name: the flag parameter (name, position without self, constant default) and the truth value of
    the flag for which the receiver itself is changed."""
    meth: str
    flag: str
    pos: int
    default: bool
    consumes_when: bool
    where: str
    cls: str = ''


class Site(T.NamedTuple):
    fn_q: str
    call: ast.Call          # the consuming call
    obj: ast.AST            # the consumed expression
    how: str                # description of the consumption


class Hit(T.NamedTuple):
    site: Site
    read: ast.AST           # the statement/expression that reads the consumed object
    what: str


def flag_spec(fn: FuncNode, selected: str, qn: str) -> T.Optional[T.Tuple[str, int, bool, bool]]:
    """For a method selecting `selected = self.copy()` / `selected = self` on a parameter: (flag, pos, default, value of the
    flag for which selected IS self).  None when no parameter decides the selection."""
    params = [a.arg for a in fn.args.args[1:]]
    defaults = fn.args.defaults
    dmap: T.Dict[str, ast.AST] = {}
    for a, d in zip(reversed(fn.args.args), reversed(defaults)):
        dmap[a.arg] = d
    found: T.Set[T.Tuple[str, bool]] = set()

    def test_flag(test: ast.AST) -> T.Optional[T.Tuple[str, bool]]:
        neg = False
        while isinstance(test, ast.UnaryOp) and isinstance(test.op, ast.Not):
            neg = not neg
            test = test.operand
        if isinstance(test, ast.Name) and test.id in params:
            return test.id, not neg
        return None

    def is_self(e: ast.AST) -> bool:
        return isinstance(e, ast.Name) and e.id == 'self'

    def binds_self(body: T.List[ast.stmt]) -> bool:
        for st in body:
            if isinstance(st, ast.Assign) and is_self(st.value) and any(isinstance(t, ast.Name) and t.id == selected for t in st.targets):
                return True
        return False

    for n in walk_no_nested(fn, include_root=False):
        if isinstance(n, ast.If):
            tf = test_flag(n.test)
            if tf is None:
                continue
            if binds_self(n.body):
                found.add((tf[0], tf[1]))
            if binds_self(n.orelse):
                found.add((tf[0], not tf[1]))
        elif isinstance(n, ast.Assign) and isinstance(n.value, ast.IfExp) and any(isinstance(t, ast.Name) and t.id == selected for t in n.targets):
            tf = test_flag(n.value.test)
            if tf is None:
                continue
            if is_self(n.value.body):
                found.add((tf[0], tf[1]))
            if is_self(n.value.orelse):
                found.add((tf[0], not tf[1]))
    if not found:
        return None
    if len(found) != 1:
        raise Undecided(f'{qn}: the selection between self and a copy depends on more than one flag/polarity: {sorted(found)}')
    flag, when_self = next(iter(found))
    d = dmap.get(flag)
    if d is None or not isinstance(d, ast.Constant):
        raise Undecided(f'{qn}: parameter `{flag}` has no constant default; cannot tell what a call without it selects')
    return flag, params.index(flag), bool(d.value), when_self


def changes_through(fn: FuncNode, selected: str, is_mutator: T.Callable[[str], bool]) -> T.Optional[ast.AST]:
    """The first construct of fn that changes the list through the selected local (None: the method only reads through it)."""
    for n in walk_no_nested(fn, include_root=False):
        if isinstance(n, ast.Call) and isinstance(n.func, ast.Attribute):
            ch = attr_chain(n.func.value)
            if ch == selected and is_mutator(n.func.attr):
                return n
            if ch in (f'{selected}._container', f'{selected}.pre', f'{selected}.post') and n.func.attr in (
                    'append', 'extend', 'insert', 'pop', 'remove', 'clear', 'sort', 'reverse', 'appendleft', 'extendleft', 'popleft'):
                return n
        elif isinstance(n, ast.AugAssign) and attr_chain(n.target) in (selected, f'{selected}._container'):
            return n
        elif isinstance(n, ast.Subscript) and isinstance(n.ctx, (ast.Store, ast.Del)) and attr_chain(n.value) in (selected, f'{selected}._container'):
            return n
    return None


# ---------------------------------------------------------------------------------------------------------------
# call-site side
# ---------------------------------------------------------------------------------------------------------------
def _root_name(e: ast.AST) -> T.Optional[str]:
    while isinstance(e, (ast.Attribute, ast.Subscript)):
        e = e.value
    return e.id if isinstance(e, ast.Name) else None


def _pos(n: ast.AST) -> T.Tuple[int, int]:
    return (getattr(n, 'lineno', 0), getattr(n, 'col_offset', 0))


def _end(n: ast.AST) -> T.Tuple[int, int]:
    return (getattr(n, 'end_lineno', 0), getattr(n, 'end_col_offset', 0))


def flag_value(call: ast.Call, spec: Spec) -> T.Optional[bool]:
    """Truth value of the flag at the call (None: not a constant)."""
    e: T.Optional[ast.AST] = None
    for k in call.keywords:
        if k.arg == spec.flag:
            e = k.value
        elif k.arg is None:
            return None
    if e is None and len(call.args) > spec.pos:
        e = call.args[spec.pos]
        if any(isinstance(a, ast.Starred) for a in call.args[:spec.pos + 1]):
            return None
    if e is None:
        return spec.default
    if isinstance(e, ast.Constant):
        return bool(e.value)
    return None


class FnView:
    """One function: CFG (lazily), stores and loads of an expression key."""

    def __init__(self, q: str, fn: FuncNode):
        self.q = q
        self.fn = fn
        self._cfg: T.Optional[CFG] = None

    @property
    def cfg(self) -> CFG:
        if self._cfg is None:
            self._cfg = CFG(self.fn)
        return self._cfg

    @staticmethod
    def _stores(e: T.Optional[ast.AST], root: str, kind: str, owner: T.Optional[ast.AST]) -> bool:
        """Does evaluating this CFG node rebind the name `root`?"""
        if kind == 'iter' and isinstance(owner, (ast.For, ast.AsyncFor)):
            return any(isinstance(x, ast.Name) and x.id == root for x in ast.walk(owner.target))
        if kind == 'with_enter' and isinstance(owner, (ast.With, ast.AsyncWith)):
            return any(i.optional_vars is not None and any(isinstance(x, ast.Name) and x.id == root for x in ast.walk(i.optional_vars))
                       for i in owner.items)
        if e is None or kind != 'stmt':
            return False
        for x in walk_no_nested(e):
            if isinstance(x, ast.Name) and x.id == root and isinstance(x.ctx, (ast.Store, ast.Del)):
                return True
        return False

    @staticmethod
    def _exempt(parents: T.Dict[int, ast.AST], x: ast.AST) -> bool:
        """Uses that do not look at the content: isinstance(x, ..), `x is (not) None`."""
        p = parents.get(id(x))
        if isinstance(p, ast.Call) and isinstance(p.func, ast.Name) and p.func.id == 'isinstance' and p.args and p.args[0] is x:
            return True
        if isinstance(p, ast.Compare) and all(isinstance(o, (ast.Is, ast.IsNot)) for o in p.ops):
            return True
        return False

    def loads(self, e: T.Optional[ast.AST], key: str, after: T.Optional[T.Tuple[int, int]] = None) -> T.List[ast.AST]:
        if e is None:
            return []
        parents: T.Dict[int, ast.AST] = {}
        out: T.List[ast.AST] = []
        want_name = re.fullmatch(r'[A-Za-z_]\w*', key) is not None
        for x in walk_no_nested(e):
            for c in ast.iter_child_nodes(x):
                parents[id(c)] = x
        for x in walk_no_nested(e):
            if want_name:
                ok = isinstance(x, ast.Name) and x.id == key and isinstance(x.ctx, ast.Load)
            else:
                ok = isinstance(x, (ast.Attribute, ast.Subscript)) and isinstance(x.ctx, ast.Load) and norm(x) == key
            if not ok or self._exempt(parents, x):
                continue
            if after is not None and _pos(x) < after:
                continue
            out.append(x)
        return out

    def reads_after(self, call: ast.Call, obj: ast.AST) -> T.List[T.Tuple[ast.AST, str]]:
        """Constructs that read `obj` on some CFG path after the node evaluating `call` (obj not rebound in between)."""
        key = norm(obj)
        root = _root_name(obj)
        if root is None:
            raise Undecided(f'{self.q}: consumed expression `{key}` has no local root name')
        cfg = self.cfg
        cn = cfg.node_containing(call)
        if not cn:
            raise Undecided(f'{self.q}: the call `{norm(call)[:60]}` is not evaluated by a CFG node (nested scope or default value)')
        kills = [n for n in cfg.nodes if self._stores(n.expr(), root, n.kind, n.ast)]
        kill_ids = {n.id for n in kills}
        out: T.List[T.Tuple[ast.AST, str]] = []
        seen: T.Set[int] = set()
        for c in cn:
            # later in the same evaluated expression
            for x in self.loads(c.expr(), key, after=_end(call)):
                if id(x) not in seen:
                    seen.add(id(x))
                    out.append((c.expr() if c.kind != 'stmt' else c.ast, 'in the same statement, after the rendering'))
            if c.id in kill_ids and c.kind == 'stmt':
                continue            # `x = x.render()`: the name no longer refers to the consumed object
            reach = cfg.reachable([c], kills)
            frontier = {b for a in (reach | {c.id}) for b, _ in cfg.succ[a] if b in kill_ids}
            again = c.id in reach
            if again and c.kind == 'iter' and isinstance(c.ast, (ast.For, ast.AsyncFor)):
                # the loop head is re-entered for the next element; the iterable is evaluated again only when the
                # loop statement itself is entered again (from outside its body)
                inside = {id(x) for s_ in c.ast.body for x in ast.walk(s_)}
                again = any(a in reach and id(cfg.nodes[a].ast) not in inside and a != c.id for a, _ in cfg.pred[c.id])
            for nid in sorted(reach | frontier):
                if nid == c.id and not again:
                    continue
                n = cfg.nodes[nid]
                e = n.expr()
                ls = self.loads(e, key)
                if ls and id(n) not in seen:
                    seen.add(id(n))
                    what = 'by the same call when it is evaluated again (loop)' if nid == c.id else 'on a path after the rendering'
                    out.append((e if n.kind != 'stmt' else n.ast, what))
        return out


def family_evidence(fn: FuncNode, name: str, fam_names: T.Set[str], returns_family: T.Callable[[ast.Call], bool],
                    direct_meths: T.Set[str]) -> T.Optional[str]:
    """Source-level evidence that the local/parameter `name` may hold a family object."""
    rx = re.compile(r'\b(' + '|'.join(sorted(map(re.escape, fam_names))) + r')\b')
    allargs = list(fn.args.posonlyargs) + list(fn.args.args) + list(fn.args.kwonlyargs)
    for a in allargs:
        if a.arg == name and a.annotation is not None and rx.search(ast.unparse(a.annotation)):
            return 'parameter annotation'
    for n in walk_no_nested(fn, include_root=False):
        if isinstance(n, ast.AnnAssign) and isinstance(n.target, ast.Name) and n.target.id == name and rx.search(ast.unparse(n.annotation)):
            return 'annotation'
        if isinstance(n, ast.Assign) and isinstance(n.value, ast.Call) and any(isinstance(t, ast.Name) and t.id == name for t in n.targets):
            if returns_family(n.value):
                return f'bound to the result of {norm(n.value.func)}(...)'
        if isinstance(n, ast.Call) and isinstance(n.func, ast.Attribute) and n.func.attr in direct_meths \
                and isinstance(n.func.value, ast.Name) and n.func.value.id == name:
            return f'.{n.func.attr}() is called on it'
    return None


class Summaries:
    """bare function name -> set of (param name, position without self/cls) that the function consumes."""

    def __init__(self) -> None:
        self.by_name: T.Dict[str, T.Set[T.Tuple[str, int]]] = {}
        self.defs: T.Dict[str, int] = {}        # how many definitions carry the bare name
        self.ndefs_consuming: T.Dict[str, int] = {}

    def add(self, name: str, param: str, pos: int) -> bool:
        s = self.by_name.setdefault(name, set())
        if (param, pos) in s:
            return False
        s.add((param, pos))
        return True


def arg_for(call: ast.Call, param: str, pos: int) -> T.Optional[ast.AST]:
    for k in call.keywords:
        if k.arg == param:
            return k.value
    if len(call.args) > pos and not any(isinstance(a, ast.Starred) for a in call.args[:pos + 1]):
        return call.args[pos]
    return None


def param_pos(fn: FuncNode, is_method: bool) -> T.Dict[str, int]:
    args = list(fn.args.posonlyargs) + list(fn.args.args)
    decos = {norm(d) for d in fn.decorator_list}
    if is_method and 'staticmethod' not in decos:
        args = args[1:]
    return {a.arg: i for i, a in enumerate(args)}


# ---------------------------------------------------------------------------------------------------------------
# which family class can the consumed object have?  (declared classes only: annotation, T.cast, assert isinstance)
# ---------------------------------------------------------------------------------------------------------------
class ClassOracle:
    """consuming / never / unknown for a local name, from the classes the source declares.

    * the name is annotated with a family class F: consuming iff a class of cone(F) resolves the rendering method to a
      consuming definition;
    * the name is bound to `X.M(...)` where every definition of M in the package is a factory (returns a family class) and
      X has declared classes K..: consuming iff some K shares a descendant-or-self with a class whose M returns a
      consuming family class; never if all K are resolved and none does;
    * the name is bound to `f(.., X, ..)` where f returns the result of `P.M(...)` on its own parameter P: as above for X;
    * anything else: unknown (not judged).
    """

    def __init__(self, repo: T.Any, fam_members: T.List[T.Tuple[Module, ast.ClassDef]], consuming_cls: T.Set[str], meth: T.Set[str]):
        self.repo = repo
        self.fam = {c.name: c for _m, c in fam_members}
        self.meth = meth
        self.texts: T.Optional[T.Dict[str, str]] = None
        self._cone: T.Dict[str, T.Set[str]] = {}
        self._heads: T.Optional[T.List[T.Tuple[str, T.Set[str]]]] = None
        # family classes whose rendering consumes (own or inherited definition)
        self.consuming_family: T.Set[str] = set()
        for name in self.fam:
            if self._family_resolves_consuming(name, consuming_cls):
                self.consuming_family.add(name)
        self._factories: T.Optional[T.Dict[str, T.List[T.Tuple[str, T.Set[str]]]]] = None

    def _family_resolves_consuming(self, name: str, consuming_cls: T.Set[str]) -> bool:
        seen: T.Set[str] = set()
        todo = [name]
        while todo:            # DFS through the bases, first definition wins
            n = todo.pop(0)
            if n in seen or n not in self.fam:
                continue
            seen.add(n)
            c = self.fam[n]
            if any(isinstance(st, (ast.FunctionDef, ast.AsyncFunctionDef)) and st.name in self.meth for st in c.body):
                return n in consuming_cls
            todo = [(attr_chain(b) or '').split('.')[-1] for b in c.bases] + todo
        return False

    def family_cone_consuming(self, fname: str) -> bool:
        cone = {fname}
        for _ in range(6):
            for n, c in self.fam.items():
                if n not in cone and any((attr_chain(b) or '').split('.')[-1] in cone for b in c.bases):
                    cone.add(n)
        return bool(cone & self.consuming_family)

    def _texts(self) -> T.Dict[str, str]:
        if self.texts is None:
            self.texts = {rel: self.repo.read(rel) for rel in self.repo.py_files('mesonbuild')}
        return self.texts

    def cone(self, cname: str) -> T.Set[str]:
        """cname and the names of all classes of the package derived from it (bases read by their last name)."""
        if cname in self._cone:
            return self._cone[cname]
        if self._heads is None:
            pat = re.compile(r'^[ \t]*class\s+(\w+)\s*\(([^)]*)\)', re.M)
            self._heads = [(mm.group(1), {b_.strip().split('[')[0].split('.')[-1] for b_ in mm.group(2).split(',')})
                           for src in self._texts().values() if 'class ' in src for mm in pat.finditer(src)]
        names = {cname}
        for _ in range(12):
            grew = False
            for cn_, bases in self._heads:
                if cn_ not in names and bases & names:
                    names.add(cn_)
                    grew = True
            if not grew:
                break
        self._cone[cname] = names
        return names

    def factories(self) -> T.Dict[str, T.List[T.Tuple[str, T.Set[str]]]]:
        """method name -> [(defining class, family classes it returns)] for methods whose every definition returns a family class."""
        if self._factories is not None:
            return self._factories
        rx = re.compile(r'\b(' + '|'.join(sorted(map(re.escape, self.fam))) + r')\b')
        cand: T.Dict[str, T.List[T.Tuple[str, T.Set[str]]]] = {}
        bad: T.Set[str] = set()
        for rel, src in self._texts().items():
            if not re.search(r'->\s*[\'"]?(?:T\.Optional\[)?[\'"]?(' + '|'.join(sorted(map(re.escape, self.fam))) + r')\b', src):
                continue
            m = self.repo.module(rel)
            for q, c in m.classes().items():
                for st in c.body:
                    if not isinstance(st, (ast.FunctionDef, ast.AsyncFunctionDef)) or st.returns is None:
                        continue
                    fams = set(rx.findall(ast.unparse(st.returns)))
                    if not fams:
                        continue
                    rets = [n for n in walk_no_nested(st, include_root=False) if isinstance(n, ast.Return)]
                    direct = bool(rets) and all(isinstance(r.value, ast.Call) and isinstance(r.value.func, ast.Name) and r.value.func.id in self.fam
                                                for r in rets)
                    if direct:
                        cand.setdefault(st.name, []).append((c.name, {r.value.func.id for r in rets}))   # type: ignore[union-attr]
                    else:
                        bad.add(st.name)
        self._factories = {k: v for k, v in cand.items() if k not in bad}
        return self._factories

    def declared_classes(self, fn: FuncNode, name: str) -> T.Set[str]:
        """Class names the source declares for a local/parameter (annotation, T.cast target, assert isinstance)."""
        out: T.Set[str] = set()

        def names_of(e: ast.AST) -> T.Set[str]:
            txt = e.value if isinstance(e, ast.Constant) and isinstance(e.value, str) else ast.unparse(e)
            words = re.findall(r'[A-Za-z_][\w.]*', txt.replace("'", ' ').replace('"', ' '))
            return {w.split('.')[-1] for w in words if not w.startswith(('T.', 'typing.')) and w not in ('T', 'None', 'Optional', 'Union', 'List')}
        for a in list(fn.args.posonlyargs) + list(fn.args.args) + list(fn.args.kwonlyargs):
            if a.arg == name and a.annotation is not None:
                out |= names_of(a.annotation)
        for n in walk_no_nested(fn, include_root=False):
            if isinstance(n, ast.AnnAssign) and isinstance(n.target, ast.Name) and n.target.id == name:
                out |= names_of(n.annotation)
            elif isinstance(n, ast.Assign) and any(isinstance(t, ast.Name) and t.id == name for t in n.targets) \
                    and isinstance(n.value, ast.Call) and (attr_chain(n.value.func) or '').split('.')[-1] == 'cast' and len(n.value.args) == 2:
                out |= names_of(n.value.args[0])
            elif isinstance(n, ast.Assert) and isinstance(n.test, ast.Call) and isinstance(n.test.func, ast.Name) and n.test.func.id == 'isinstance' \
                    and len(n.test.args) == 2 and isinstance(n.test.args[0], ast.Name) and n.test.args[0].id == name:
                t = n.test.args[1]
                for e in (t.elts if isinstance(t, ast.Tuple) else [t]):
                    out |= names_of(e)
        return out

    def via_factory(self, fn: FuncNode, recv: str, meth: str) -> str:
        facs = self.factories().get(meth)
        if not facs:
            return 'unknown'
        ks = self.declared_classes(fn, recv)
        if not ks:
            return 'unknown'
        consuming_defs = [cls for cls, fams in facs if any(f in self.consuming_family for f in fams)]
        def_classes = {cls for cls, _ in facs}
        verdict = 'never'
        for k in ks:
            ck = self.cone(k)
            if not any(ck & self.cone(d) for d in def_classes):
                return 'unknown'        # the declared class does not get the factory from a known definition
            if any(ck & self.cone(d) for d in consuming_defs):
                verdict = 'consuming'
        return verdict

    def verdict(self, fn: FuncNode, name: str, resolve: T.Callable[[str], T.List[FuncNode]]) -> T.Tuple[str, str]:
        """('consuming'|'never'|'unknown', why)"""
        decl = self.declared_classes(fn, name) & set(self.fam)
        if decl:
            if any(self.family_cone_consuming(f) for f in decl):
                return 'consuming', f'declared as {"/".join(sorted(decl))}'
            return 'never', f'declared as {"/".join(sorted(decl))}, whose rendering does not change its receiver'
        verdicts: T.List[T.Tuple[str, str]] = []
        for n in walk_no_nested(fn, include_root=False):
            if not (isinstance(n, ast.Assign) and any(isinstance(t, ast.Name) and t.id == name for t in n.targets)):
                continue
            v = n.value
            if isinstance(v, ast.Call) and isinstance(v.func, ast.Attribute) and isinstance(v.func.value, ast.Name) and v.func.attr in self.factories():
                verdicts.append((self.via_factory(fn, v.func.value.id, v.func.attr), f'{norm(v.func)}() with {v.func.value.id} declared as '
                                 f'{"/".join(sorted(self.declared_classes(fn, v.func.value.id))) or "nothing"}'))
                continue
            if isinstance(v, ast.Call) and isinstance(v.func, ast.Name) and v.func.id in self.fam:
                verdicts.append(('consuming' if v.func.id in self.consuming_family else 'never', f'constructed as {v.func.id}'))
                continue
            if isinstance(v, ast.Call):
                nm = v.func.attr if isinstance(v.func, ast.Attribute) else (v.func.id if isinstance(v.func, ast.Name) else None)
                got = None
                for callee in (resolve(nm) if nm else []):
                    got = self._returns_factory_on_param(callee)
                    if got is None:
                        break
                if nm and got is not None:
                    pname, ppos, meth = got
                    a = arg_for(v, pname, ppos)
                    if isinstance(a, ast.Name):
                        verdicts.append((self.via_factory(fn, a.id, meth), f'{nm}(..) returns {pname}.{meth}() and {pname} is `{a.id}`, declared as '
                                         f'{"/".join(sorted(self.declared_classes(fn, a.id))) or "nothing"}'))
                        continue
            verdicts.append(('unknown', f'bound to `{norm(v)[:50]}`'))
        if not verdicts:
            return 'unknown', 'no binding with a declared class'
        for want in ('unknown', 'consuming', 'never'):
            for vd, why in verdicts:
                if vd == want:
                    return vd, why
        return 'unknown', ''

    def _returns_factory_on_param(self, callee: FuncNode) -> T.Optional[T.Tuple[str, int, str]]:
        """callee returns (on every return) a local bound once to `P.M(...)`, P its own parameter, M a factory."""
        is_meth = bool(callee.args.args) and callee.args.args[0].arg in ('self', 'cls')
        ppos = param_pos(callee, is_meth)
        rets = [n for n in walk_no_nested(callee, include_root=False) if isinstance(n, ast.Return)]
        if not rets or not all(isinstance(r.value, ast.Name) for r in rets):
            return None
        rn = {r.value.id for r in rets}       # type: ignore[union-attr]
        if len(rn) != 1:
            return None
        local = next(iter(rn))
        binds = [n for n in walk_no_nested(callee, include_root=False)
                 if isinstance(n, ast.Assign) and any(isinstance(t, ast.Name) and t.id == local for t in n.targets)]
        if len(binds) != 1:
            return None
        v = binds[0].value
        if isinstance(v, ast.Call) and isinstance(v.func, ast.Attribute) and isinstance(v.func.value, ast.Name) \
                and v.func.value.id in ppos and v.func.attr in self.factories():
            return v.func.value.id, ppos[v.func.value.id], v.func.attr
        return None


def shape(node: ast.AST, obj: ast.AST) -> str:
    """Name-free text of a construct: the consumed expression is OBJ, other local names are `_` (callee names, attribute
    names, `self` and constants stay)."""
    import copy as _copy
    key = norm(obj)
    tree = _copy.deepcopy(node)
    if isinstance(tree, (ast.For, ast.AsyncFor)):
        tree = tree.iter
    elif isinstance(tree, (ast.If, ast.While)):
        tree = tree.test

    class Tr(ast.NodeTransformer):
        def visit(self, n: ast.AST) -> ast.AST:      # noqa: D102
            if isinstance(n, (ast.Name, ast.Attribute, ast.Subscript)) and norm(n) == key:
                return ast.Name(id='OBJ', ctx=ast.Load())
            if isinstance(n, ast.Call):
                f = n.func
                if isinstance(f, ast.Name):
                    n.args = [self.visit(a) for a in n.args]
                    n.keywords = [ast.keyword(arg=k.arg, value=self.visit(k.value)) for k in n.keywords]
                    return n
            if isinstance(n, ast.Name) and n.id != 'self':
                return ast.Name(id='_', ctx=ast.Load())
            return self.generic_visit(n)
    return norm(Tr().visit(tree))
