"""C15 — introspection files describe the generated build (DESIGN §2 C15)."""
from __future__ import annotations

import ast
import copy
import typing as T

from ..core import Undecided, Module, norm, short, attr_chain, call_method, call_name, walk_no_nested, kwarg
from ..report import Rule, RuleCtx
from ..cfg import CFG
from ..flow import Flow
from ..paths import enumerate_paths
from .c15_util import (MINTRO, BACKENDS, NINJA, MSETUP, MTEST, MINSTALL, OPTIONS, INTERP, IDEDOC, FuncNode, Locals, params, param,
                       intro_table, intro_func, method_calls, recv, is_call_on, dict_entries, subscript_stores, attrs_of,
                       const_strs, embedded_calls, path_term, eval_term, fmt_term, Term, parents, bind_args, judge, normal_func, fold_template)

EXPLANATION = (
    'Decides structural clauses of C15: the meson-info files and the files the other tools consume are projections of the same '
    'producer objects. R1a intro-tests/benchmarks come from Backend.create_test_serialisation(build.get_tests()/get_benchmarks()), the '
    'call that is pickled into meson_test_setup.dat/meson_benchmark_setup.dat which mtest loads; R1b install plan/installed/targets '
    'install table come from Backend.create_install_data(), the call pickled into install.dat which minstall loads; R1c '
    'target_sources come from the per-target store that only the compile/link statement generators fill, keyed by target id; R1d the '
    'build options projection covers every value store the get_option() resolver reads; R1e every documented intro-<kind>.json is '
    'produced by generate_introspection_file from (coredata of the build, build, backend), buildsystem_files from Build.def_files '
    '(the list the regeneration rule depends on); R2a every documented test key is projected from the TestSerialisation field '
    'mtest reads; R2b install plan tag/subproject are the fields Installer.should_install filters on and the five installed '
    'categories are covered; R2c list_installed derives source and destination from the same fields as the per-kind installers; '
    'R3 mintro and the backend agree on the target output directory for both layouts, and a target class whose get_outputs() are per-source object names (returned by object_filename_from_source, emitted by the compile statement below get_target_private_dir) is reported below that private directory; R5 a path-like build definition file is recorded only '
    'after the build-directory test, which precedes the source-directory test (the build dir may be nested in the source dir); R4 introspection is generated only after '
    'backend.generate returned, for the same build/backend pair. '
    'R1h every per-source builder whose object generate_target links records its source; R2e every target class recorded as a test dependency '
    '(incl. the program behind a LocalProgram) is built by the test prerequisite statement; R1d also covers the option-object value paths of the resolver '
    '(yielding options). All rules read a source-to-source normal form (small helpers inlined, conditional expressions/filter()/dict comprehensions desugared, '
    'calls bound by signature) and report only on positive evidence or in a closed world. '
    'R2d also requires that beyond their common tail install_path and install_path_name differ only in their roots, and that a literal `{name}` root '
    'names the directory option the real root was read from (producers and OptionString(real, name) sites). '
    'R6 every interpreter method of a compiler object that declares a File positional argument and hands it to a configure-time compiler check records the '
    'object the user passed with add_build_def_file on every returning path (files created at setup time excepted, which the recorder ignores); R7 the '
    'configure_file depfile chain: rules naming the same target are merged (an entry is only created for a target not seen before) and every dependency '
    'returned for the output is recorded. '
    'R8 run_command(): a relative string argument is handed to add_build_def_file below the same directory (root chosen by the in-builddir flag, then the current subdir) RunProcess passes to Popen(cwd=...), for both values of the flag. Does NOT decide: how mtest interprets a suite string (split_suite_string splitting at the first colon only - string-value semantics of the runner, the serialised suites are unchanged); whether the exclude_files/exclude_directories strings recorded in the install plan are spelled the way Installer.do_copydir compares them (path normalisation of user strings - value-level); whether the depfile tokenizer (depfile.parse) and the transitive closure of get_all_dependencies return the right names; other readers of '
    'user files (fs.read, keyval, cmake, qt) beyond what R5 says about the recorder; equality of the two generated artefacts for a concrete project (run-time values); agreement of two *opaque* roots '
    '(install_dir vs install_dir_name objects) or a directory joined on one side in front of the common tail; uniqueness of the source-path keys of '
    'intro-install_plan/intro-installed (several install_data() of one file collapse - documented format); whether two path expressions name the same '
    'file (fs.read registering a relative name); value semantics of join_paths (install_dir_name text); env.unset() as seen by mtest; build files of a '
    'failed optional subproject.')
ASSUMPTIONS = ['pickle round-trips TestSerialisation/InstallData unchanged',
               'Target.get_target() returns the target itself (CustomTargetIndex: its parent)',
               'a run target has no output file: its dummy directory is outside R3']
TECHNIQUE = ('def-use origin sets (single source of truth, sibling field agreement) + CFG dominance (ordering, record-before-emit) + '
             'who-may-write + path enumeration with copy propagation into symbolic path terms compared per world of the branch atoms + '
             'key tables parsed from the documentation; no repository code is interpreted on input values')


# ---------------------------------------------------------------------------
# R4 ordering

def r4(ctx: RuleCtx) -> None:
    mod = ctx.repo.module(MSETUP)
    fn = normal_func(mod, 'MesonApp._generate')
    imps = mod.imports()
    cfg = CFG(fn)
    gen_nodes, intro_nodes = [], []
    gen_recv: T.Set[str] = set()
    intro_calls: T.List[ast.Call] = []
    for n in cfg.nodes:
        e = n.expr()
        if e is None:
            continue
        for c in embedded_calls(e):
            m = call_method(c)
            if m == 'generate' and (recv(c) or '').split('.')[-1] == 'backend':
                gen_nodes.append(n)
                gen_recv.add(recv(c) or '')
            elif m == 'generate_introspection_file':
                r = recv(c)
                if r is None or imps.get(r, '') != 'mesonbuild.mintro':
                    raise Undecided(f'_generate: generate_introspection_file called on {r!r}, not on the mintro module')
                intro_nodes.append(n)
                intro_calls.append(c)
    ctx.floor('backend.generate call sites in _generate', len(gen_nodes), 2)
    ctx.floor('generate_introspection_file call sites in _generate', len(intro_nodes), 2)
    for i, (n, c) in enumerate(zip(intro_nodes, intro_calls)):
        ok = cfg.must_pass(cfg.entry, n, gen_nodes)
        ctx.require(ok, f'introspection generation site {i + 1} `{short(c, 60)}` is dominated by backend.generate ({len(gen_nodes)} sites)',
                    mod, 'MesonApp._generate', c, 'generate_introspection_file is reachable on a path that has not run backend.generate: '
                    'the per-target introspection store and install/test data describe a build that was not generated', n.ast)
    # same (build, backend) pair
    loc = Locals(fn)
    if len(gen_recv) != 1:
        raise Undecided(f'_generate: backend.generate is called on several receivers {sorted(gen_recv)}')
    backend_chain = next(iter(gen_recv))
    interp_var = backend_chain.split('.')[0]
    idef = loc.defs.get(interp_var, [])
    if len(idef) != 1 or not isinstance(idef[0], ast.Call) or not idef[0].args:
        raise Undecided(f'_generate: cannot resolve the interpreter object `{interp_var}`')
    ib = bind_args(idef[0], None, ['build'])
    if 'build' not in ib and '_build' not in ib:
        raise Undecided(f'_generate: cannot see the Build the interpreter `{interp_var}` is constructed over')
    build_arg = norm(ib.get('build', ib.get('_build')))
    gif = ctx.repo.module(MINTRO).func('generate_introspection_file')
    g0, g1 = param(gif, 0, 'generate_introspection_file'), param(gif, 1, 'generate_introspection_file')
    for i, c in enumerate(intro_calls):
        ba = bind_args(c, gif)
        got = []
        for g, want_txt in ((g0, build_arg), (g1, backend_chain)):
            if g not in ba:
                got.append('<missing>')
                continue
            raw = norm(ba[g])
            if raw != want_txt and isinstance(ba[g], ast.Name):
                r_ = loc.resolve(ba[g])          # a plain alias of the same object
                if attr_chain(r_) == want_txt:
                    raw = want_txt
            got.append(raw)
        judge(ctx, got == [build_arg, backend_chain], f'site {i + 1} `{short(c, 60)}` receives the build the backend was created for and that backend',
              '<missing>' not in got, mod, 'MesonApp._generate', c, f'introspection is generated for ({", ".join(got)}) but the generated backend is '
              f'{backend_chain} of the interpreter constructed over {build_arg}')


# ---------------------------------------------------------------------------
# R3 sibling path derivation

class _Sub(ast.NodeTransformer):
    def __init__(self, env: T.Dict[str, ast.AST]):
        self.env = env

    def visit_Name(self, n: ast.Name) -> ast.AST:
        if isinstance(n.ctx, ast.Load) and n.id in self.env:
            return copy.deepcopy(self.env[n.id])
        return n


def _layout_choices(ctx: RuleCtx) -> T.List[str]:
    mod = ctx.repo.module(OPTIONS)
    found: T.List[T.List[str]] = []
    for c in ast.walk(mod.tree):
        if isinstance(c, ast.Call) and c.args and isinstance(c.args[0], ast.Constant) and c.args[0].value == 'layout' \
                and call_method(c) == 'UserComboOption':
            for k in c.keywords:
                if k.arg == 'choices' and isinstance(k.value, (ast.List, ast.Tuple)) and all(isinstance(x, ast.Constant) for x in k.value.elts):
                    found.append([x.value for x in k.value.elts])  # type: ignore[attr-defined]
    if len(found) != 1:
        raise Undecided(f'options.py: cannot fold the choices of the layout option ({len(found)} candidates)')
    return found[0]


DirRow = T.Tuple[T.List[T.Tuple[T.Tuple[str, T.Any], bool]], Term, ast.AST]


def _dir_table(fn: T.Union[FuncNode, ast.Lambda], bind: T.Dict[str, ast.AST], targets: T.Set[str], qn: str) -> T.List[DirRow]:
    """Path-sensitive symbolic table of a directory function: [(atoms, returned path term)]."""
    rows: T.List[DirRow] = []
    body = fn.body if not isinstance(fn, ast.Lambda) else [ast.Return(value=fn.body)]
    for p in enumerate_paths(body, pure={'get_value_for', 'OptionKey', 'get_build_subdir', 'get_builddir', 'get_target'}):
        env: T.Dict[str, ast.AST] = dict(bind)
        conds: T.List[T.Tuple[T.Tuple[str, T.Any], bool]] = []
        for ev in p.events:
            if ev.kind == 'stmt':
                st = ev.node
                if isinstance(st, (ast.Assign, ast.AnnAssign)):
                    tg = st.targets[0] if isinstance(st, ast.Assign) and len(st.targets) == 1 else getattr(st, 'target', None)
                    if isinstance(tg, ast.Name) and st.value is not None:
                        env[tg.id] = _Sub(env).visit(copy.deepcopy(st.value))
                        continue
                    raise Undecided(f'{qn}: assignment outside the understood idioms: {short(st)}')
                if isinstance(st, (ast.Return, ast.Pass)) or (isinstance(st, ast.Expr) and isinstance(st.value, ast.Constant)):
                    continue
                raise Undecided(f'{qn}: statement outside the understood idioms: {short(st)}')
            elif ev.kind == 'cond':
                e = _Sub(env).visit(copy.deepcopy(ev.node))
                conds.append((_dir_atom(e, targets, qn), bool(ev.val)))
            else:
                raise Undecided(f'{qn}: {ev.kind} event in a directory function')
        if p.outcome != 'return' or p.value is None:
            raise Undecided(f'{qn}: path ends with {p.outcome}')
        val = _Sub(env).visit(copy.deepcopy(p.value))
        rows.append((conds, path_term(val, {}, targets), p.value))
    return rows


def _dir_atom(e: ast.AST, targets: T.Set[str], qn: str) -> T.Tuple[str, T.Any]:
    if isinstance(e, ast.Call) and isinstance(e.func, ast.Name) and e.func.id == 'isinstance' and len(e.args) == 2 \
            and isinstance(e.args[0], ast.Name) and e.args[0].id in targets and (attr_chain(e.args[1]) or '').split('.')[-1] == 'RunTarget':
        return ('run', None)
    if isinstance(e, ast.Compare) and len(e.ops) == 1 and isinstance(e.ops[0], (ast.Eq, ast.NotEq)):
        l, r = e.left, e.comparators[0]
        if isinstance(l, ast.Constant):
            l, r = r, l
        if isinstance(r, ast.Constant) and isinstance(r.value, str) and isinstance(l, ast.Call) and call_method(l) == 'get_value_for' \
                and (recv(l) or '').split('.')[-1] == 'optstore' and len(l.args) == 1:
            a = l.args[0]
            if isinstance(a, ast.Call) and call_method(a) == 'OptionKey' and len(a.args) == 1 and not a.keywords:
                a = a.args[0]
            if isinstance(a, ast.Constant) and a.value == 'layout':
                return ('layout', (r.value, isinstance(e.ops[0], ast.Eq)))
    try:
        t = path_term(e, {}, targets)
    except Undecided:
        t = None
    if t == (('get_build_subdir',),):
        return ('has_build_subdir', None)
    raise Undecided(f'{qn}: condition outside the understood vocabulary: {short(e)}')


def _fire(rows: T.List[DirRow], world: T.Dict[str, T.Any], qn: str) -> DirRow:
    hit = []
    for row in rows:
        ok = True
        for (kind, arg), val in row[0]:
            if kind == 'run':
                truth = world['run']
            elif kind == 'has_build_subdir':
                truth = world['has_build_subdir']
            else:
                const, is_eq = arg
                truth = (world['layout'] == const) == is_eq
            if truth != val:
                ok = False
                break
        if ok:
            hit.append(row)
    if len(hit) != 1:
        raise Undecided(f'{qn}: {len(hit)} paths fire for {world}')
    return hit[0]


def _backend_dir_fn(ctx: RuleCtx) -> T.Tuple[Module, str, FuncNode, str]:
    """The function that decides a target's output directory for the ninja backend, and its target parameter."""
    m, cq, fn = _resolved_method(ctx, 'get_target_dir')
    tp = param(fn, 0, cq)
    rets = [s for s in fn.body if not (isinstance(s, ast.Expr) and isinstance(s.value, ast.Constant))]
    if len(rets) == 1 and isinstance(rets[0], ast.Return) and isinstance(rets[0].value, ast.Call):
        call = rets[0].value
        if recv(call) == 'self' and len(call.args) == 1 and not call.keywords:
            a = call.args[0]
            if (isinstance(a, ast.Name) and a.id == tp) or is_call_on(a, tp, 'get_target'):
                m2, q2, fn2 = _resolved_method(ctx, call_method(call) or '')
                return m2, q2, fn2, param(fn2, 0, fn2.name)
    return m, cq, fn, tp


def _check_builddir_model(ctx: RuleCtx) -> None:
    """Target.get_builddir() is <prefix+subdir>, extended by build_subdir exactly when that is set."""
    bmod = ctx.repo.module('mesonbuild/build.py')
    for meth, field in (('get_builddir', 'builddir'), ('get_build_subdir', 'build_subdir'), ('get_subdir', 'subdir')):
        c = bmod.func(f'Target.{meth}')
        body = [s for s in c.body if not (isinstance(s, ast.Expr) and isinstance(s.value, ast.Constant))]
        if not (len(body) == 1 and isinstance(body[0], ast.Return) and attr_chain(body[0].value) == f'self.{field}'):
            raise Undecided(f'build.Target.{meth} is not `return self.{field}`')
    pi = bmod.func('Target.__post_init__')
    pm = parents(pi)
    writes = [n for n in ast.walk(pi) if isinstance(n, ast.Assign) and len(n.targets) == 1 and attr_chain(n.targets[0]) == 'self.builddir']
    plain = [w for w in writes if pm.get(w) is pi]
    cond = [w for w in writes if isinstance(pm.get(w), ast.If) and norm(pm[w].test) == 'self.build_subdir' and w in pm[w].body]  # type: ignore[union-attr]
    ok = len(writes) == 2 and len(plain) == 1 and len(cond) == 1 and 'self.subdir' in {attr_chain(x) for x in ast.walk(plain[0].value)} \
        and 'self.build_subdir' not in {attr_chain(x) for x in ast.walk(plain[0].value)} \
        and norm(cond[0].value) == 'os.path.join(self.builddir, self.build_subdir)'
    if not ok:
        raise Undecided('build.Target.__post_init__: builddir is not `<prefix>+subdir`, joined with build_subdir when that is set')
    ctx.ok('build.Target: get_builddir() = prefix+subdir [/ build_subdir when set]; get_build_subdir()/get_subdir() return their fields')


def _inline(loc: Locals, e: ast.AST, depth: int = 4) -> ast.AST:
    """Expression with single-definition locals substituted (receiver chains included): `ts = b.get_targets(); ts.items()` -> `b.get_targets().items()`."""
    class _R(ast.NodeTransformer):
        def visit_Name(self, n: ast.Name) -> ast.AST:
            if isinstance(n.ctx, ast.Load) and n.id not in params(loc.fn):
                d = loc.defs.get(n.id)
                if d and len(d) == 1 and d[0] is not None and depth > 0:
                    return _inline(loc, copy.deepcopy(d[0]), depth - 1)
            return n
    return _R().visit(copy.deepcopy(e))


def _isinstance_classes(t: ast.AST, var: str) -> T.Optional[T.Set[str]]:
    """Class names of a plain `isinstance(var, K)` / `isinstance(var, (K1, K2))` test; None for anything else."""
    if isinstance(t, ast.Call) and isinstance(t.func, ast.Name) and t.func.id == 'isinstance' and len(t.args) == 2 \
            and isinstance(t.args[0], ast.Name) and t.args[0].id == var:
        k = t.args[1]
        names = {(attr_chain(x) or '?').split('.')[-1] for x in (k.elts if isinstance(k, ast.Tuple) else [k])}
        return None if '?' in names else names
    return None


def _per_source_output_classes(ctx: RuleCtx) -> T.Dict[str, str]:
    """Target classes whose get_outputs() names are per-source *object* names: the compile statement generator (not the link
    statement) emits them, below the private directory of the target.  Evidence chain, all three links required:
    (a) object_filename_from_source returns `<target>.<map>[<source>]` under `isinstance(<target>, K)`;
    (b) class K fills `self.outputs` and `self.<map>` with the same value and get_outputs() returns self.outputs;
    (c) generate_single_compile joins that object name to get_target_private_dir(<target>) and the join is the output of the
    build statement."""
    bm, bq, ofs = _resolved_method(ctx, 'object_filename_from_source')
    tp, sp = param(ofs, 0, bq), param(ofs, 2, bq)
    pm = parents(ofs)
    found: T.Dict[str, str] = {}
    for r in ast.walk(ofs):
        if not (isinstance(r, ast.Return) and isinstance(r.value, ast.Subscript)):
            continue
        ch = (attr_chain(r.value.value) or '').split('.')
        if not (len(ch) == 2 and ch[0] == tp and isinstance(r.value.slice, ast.Name) and r.value.slice.id == sp):
            continue
        par = pm.get(r)
        ks = _isinstance_classes(par.test, tp) if isinstance(par, ast.If) and r in par.body else None
        if ks is None:
            raise Undecided(f'{bq}: `{short(r)}` is not guarded by a plain isinstance test on `{tp}`')
        for k in ks:
            found[k] = ch[1]
    if not found:
        return {}
    bmod = ctx.repo.module('mesonbuild/build.py')
    for k, mp in found.items():
        cls = bmod.cls(k)
        go = ctx.repo.find_method(bmod, cls, 'get_outputs')
        body = [s for s in go[2].body if not (isinstance(s, ast.Expr) and isinstance(s.value, ast.Constant))] if go else []
        if not (len(body) == 1 and isinstance(body[0], ast.Return) and attr_chain(body[0].value) == 'self.outputs'):
            raise Undecided(f'build.{k}.get_outputs() is not `return self.outputs`')
        same = False
        for st in cls.body:
            if not isinstance(st, ast.FunctionDef):
                continue
            app = {norm(c.args[0]) for c in ast.walk(st) if isinstance(c, ast.Call) and call_method(c) == 'append' and recv(c) == 'self.outputs'
                   and len(c.args) == 1 and isinstance(c.args[0], ast.Name)}
            sto = {norm(a.value) for a in ast.walk(st) if isinstance(a, ast.Assign) and len(a.targets) == 1 and isinstance(a.targets[0], ast.Subscript)
                   and attr_chain(a.targets[0].value) == f'self.{mp}' and isinstance(a.value, ast.Name)}
            same = same or bool(app & sto)
        if not same:
            raise Undecided(f'build.{k}: cannot see that the values of self.{mp} are the elements of self.outputs')
    nm, nq, gsc = _resolved_method(ctx, 'generate_single_compile')
    gt = param(gsc, 0, nq)
    gloc = Locals(gsc)
    placed = False
    for a in ast.walk(gsc):
        if not (isinstance(a, ast.Assign) and len(a.targets) == 1 and isinstance(a.targets[0], ast.Name) and isinstance(a.value, ast.Call)):
            continue
        j = a.value
        if not (call_method(j) == 'join' and recv(j) == 'os.path' and len(j.args) == 2 and norm(j.args[0]) == f'self.get_target_private_dir({gt})'):
            continue
        try:
            o = gloc.resolve(j.args[1])
        except Undecided:
            continue
        if not (isinstance(o, ast.Call) and call_method(o) == 'object_filename_from_source' and recv(o) == 'self' and o.args and norm(o.args[0]) == gt):
            continue
        out = a.targets[0].id
        for c in ast.walk(gsc):
            if isinstance(c, ast.Call) and (call_name(c) or '').split('.')[-1] == 'NinjaBuildElement' and len(c.args) >= 2 and norm(c.args[1]) == out:
                placed = True
    if not placed:
        raise Undecided(f'{nq}: cannot see the object name of object_filename_from_source joined to get_target_private_dir({gt}) as the statement output')
    return found


def _class_outdirs(fn: FuncNode, loc: Locals, e: ast.AST, tvar: str, loop: ast.AST) -> T.Tuple[ast.AST, T.Dict[str, ast.AST]]:
    """(general definition, {class: definition}) of the output directory expression `e` used for the targets `tvar` of `loop`.
    Understood forms: one definition (possibly a conditional expression on isinstance(tvar, K)); a definition in the loop body
    followed by `if isinstance(tvar, K): <name> = ...`; `if isinstance(tvar, K): <name> = ... else: <name> = ...`."""
    def split(v: ast.AST) -> T.Tuple[ast.AST, T.Dict[str, ast.AST]]:
        if isinstance(v, ast.IfExp):
            ks = _isinstance_classes(v.test, tvar)
            if ks is None:
                raise Undecided(f'{fn.name}: output directory chosen by a condition that is not isinstance({tvar}, K): {short(v.test)}')
            g, per = split(v.orelse)
            per.update({k: v.body for k in ks})
            return g, per
        return v, {}
    if not isinstance(e, ast.Name) or e.id in params(fn):
        return split(e)
    defs = [a for a in Locals._walk(fn) if isinstance(a, (ast.Assign, ast.AnnAssign)) and a.value is not None
            and any(isinstance(t, ast.Name) and t.id == e.id for t in (a.targets if isinstance(a, ast.Assign) else [a.target]))]
    if len(defs) != len(loc.defs.get(e.id, [])) or not defs:
        raise Undecided(f'{fn.name}: `{e.id}` is bound by something else than plain assignments')
    if len(defs) == 1:
        v = defs[0].value
        return split(loc.resolve(v) if isinstance(v, ast.Name) else v)
    pm = parents(fn)
    general: T.List[T.Tuple[int, ast.AST]] = []
    per: T.Dict[str, ast.AST] = {}
    body = list(getattr(loop, 'body', []))
    for a in defs:
        par = pm.get(a)
        if par is loop:
            general.append((body.index(a), a.value))
        elif isinstance(par, ast.If) and pm.get(par) is loop and _isinstance_classes(par.test, tvar) is not None and len(par.body if a in par.body else par.orelse) == 1:
            if a in par.body:
                for k in _isinstance_classes(par.test, tvar) or set():
                    if k in per:
                        raise Undecided(f'{fn.name}: two definitions of `{e.id}` for class {k}')
                    per[k] = a.value
                if not par.orelse:
                    per.setdefault('#after', ast.Constant(value=body.index(par)))
            else:
                general.append((body.index(par), a.value))
        else:
            raise Undecided(f'{fn.name}: definition `{short(a)}` of the output directory is outside the understood forms')
    after = per.pop('#after', None)
    if len(general) != 1 or (after is not None and after.value < general[0][0]):  # type: ignore[attr-defined]
        raise Undecided(f'{fn.name}: `{e.id}` has {len(general)} unconditional definitions / a class arm that the general definition overwrites')
    return general[0][1], per


def r3(ctx: RuleCtx) -> None:
    mod = ctx.repo.module(MINTRO)
    fn = intro_func(mod, 'targets')
    qn = fn.name
    p_build, p_backend = param(fn, 1, qn), param(fn, 2, qn)
    loc = Locals(fn)
    # the dict that describes one target: its 'filename' entry
    sites = []
    for d in ast.walk(fn):
        if isinstance(d, ast.Dict):
            ent = dict_entries(d)
            if 'filename' in ent:
                sites.append(ent['filename'])
    sites += [v for _, k, v, _ in subscript_stores(fn) if k == 'filename']
    if len(sites) != 1:
        raise Undecided(f'{qn}: expected one `filename` entry, found {len(sites)}')
    fe = sites[0]
    if not (isinstance(fe, ast.ListComp) and len(fe.generators) == 1 and not fe.generators[0].ifs and isinstance(fe.generators[0].target, ast.Name)):
        raise Undecided(f'{qn}: `filename` is not a simple comprehension: {short(fe)}')
    gen = fe.generators[0]
    it = gen.iter
    if not (isinstance(it, ast.Call) and call_method(it) == 'get_outputs' and not it.args and isinstance(it.func, ast.Attribute) and isinstance(it.func.value, ast.Name)):
        raise Undecided(f'{qn}: `filename` does not iterate <target>.get_outputs(): {short(it)}')
    tvar = it.func.value.id
    # the target variable is the value of builddata.get_targets().items()
    tloops = [l for l in ast.walk(fn) if isinstance(l, ast.For) and isinstance(l.target, ast.Tuple) and len(l.target.elts) == 2
              and isinstance(l.target.elts[1], ast.Name) and l.target.elts[1].id == tvar]
    it_res = norm(_inline(loc, tloops[0].iter)) if len(tloops) == 1 else ''
    judge(ctx, it_res == f'{p_build}.get_targets().items()', f'{qn}: targets iterate {p_build}.get_targets().items()',
          it_res.endswith('.get_targets().items()') and it_res != f'{p_build}.get_targets().items()', mod, qn, tloops[0].iter if tloops else fe,
          f'the target list is `{it_res}`, not the (id, target) items of the Build that was generated')
    elt = fe.elt
    if not (isinstance(elt, ast.Call) and call_method(elt) == 'join' and recv(elt) == 'os.path' and len(elt.args) == 3
            and isinstance(elt.args[2], ast.Name) and elt.args[2].id == gen.target.id):
        raise Undecided(f'{qn}: filename element is not os.path.join(build_dir, outdir, output): {short(elt)}')
    root = _inline(loc, elt.args[0])
    judge(ctx, norm(root) in (f'{p_build}.environment.get_build_dir()', f'{p_build}.environment.build_dir'), f'{qn}: filenames are rooted at the build directory',
          isinstance(root, ast.Call) and call_method(root) in ('get_source_dir', 'get_scratch_dir', 'get_log_dir'), mod, qn, elt,
          f'filenames are rooted at `{short(root)}`, ninja outputs are relative to {p_build}.environment.get_build_dir()')
    general, per_cls = _class_outdirs(fn, loc, elt.args[1], tvar, tloops[0] if len(tloops) == 1 else fn)
    outdir = loc.resolve(general) if isinstance(general, ast.Name) else general
    # per-class clause: a class whose get_outputs() are per-source objects has them generated in the private directory
    diverted = _per_source_output_classes(ctx)
    ctx.floor('target classes whose get_outputs() are per-source objects emitted below the private directory', len(diverted), 1)
    tmod = ctx.repo.module('mesonbuild/build.py')
    for k in sorted(diverted):
        arm = None
        for _, c in ctx.repo.mro(tmod, tmod.cls(k)):
            if c.name in per_cls:
                arm = per_cls[c.name]
                break
        if arm is None:
            other = [t for t in ast.walk(fn) if k in (_isinstance_classes(t, tvar) or set())]
            if other:
                raise Undecided(f'{qn}: {k} targets are discriminated by `{short(other[0])}` outside the output directory definition')
            used = outdir
        else:
            used = loc.resolve(arm) if isinstance(arm, ast.Name) else arm
        good = is_call_on(used, p_backend, 'get_target_private_dir') and isinstance(used, ast.Call) and [norm(a) for a in used.args] == [tvar] and not used.keywords
        # positive evidence: the directory used for k is the general one, or another call of the linked-outputs directory function
        same_as_general = arm is None or norm(used) == norm(outdir) or (
            isinstance(used, ast.Call) and isinstance(outdir, ast.Call) and norm(used.func) == norm(outdir.func)
            and 'get_target_private_dir' not in {call_method(c) for c in ast.walk(used) if isinstance(c, ast.Call)})
        judge(ctx, good, f'{qn}: outputs of {k} (per-source objects, self.{diverted[k]}) are reported below {p_backend}.get_target_private_dir({tvar})',
              same_as_general, mod, qn, f"'filename': directory of per-source outputs ({k})",
              f'{k}.get_outputs() are the per-source object names (self.{diverted[k]}): the compile statement generates them in '
              f'get_target_private_dir(target) (generate_single_compile: os.path.join(private dir, object_filename_from_source(...))), and the '
              f'interpreter hands them to other targets below that directory, but intro-targets.json joins them to `{short(used, 90)}` - the '
              f'directory of linked outputs; the listed files are never generated', fe)
    bmod, bqn, bfn, btp = _backend_dir_fn(ctx)
    if is_call_on(outdir, p_backend, 'get_target_dir') and isinstance(outdir, ast.Call) and [norm(a) for a in outdir.args] == [tvar]:
        ctx.ok(f'{qn}: output directory is {p_backend}.get_target_dir({tvar}) — the function the backend itself uses ({bqn})')
        return
    if not (isinstance(outdir, ast.Call) and isinstance(outdir.func, ast.Name) and mod.has_func(outdir.func.id)):
        raise Undecided(f'{qn}: output directory expression not understood: {short(outdir)}')
    mfn = normal_func(mod, outdir.func.id, inline=0)
    bind = {p: _inline(loc, a) for p, a in bind_args(outdir, mfn).items()}
    defaults = mfn.args.defaults
    for p_, d_ in zip(params(mfn)[len(params(mfn)) - len(defaults):], defaults):
        bind.setdefault(p_, d_)
    if set(params(mfn)) - set(bind):
        raise Undecided(f'{qn}: call of {mfn.name} does not bind {sorted(set(params(mfn)) - set(bind))}')
    _check_builddir_model(ctx)
    mrows = _dir_table(mfn, bind, {tvar}, mfn.name)
    brows = _dir_table(normal_func(bmod, bqn, fn=bfn, inline=0), {}, {btp}, bqn)
    choices = _layout_choices(ctx)
    ctx.note(f'{mfn.name}: {len(mrows)} paths; {bqn}: {len(brows)} paths; layout choices {choices}; run targets exempt (no output file)')
    n = 0
    for layout in choices:
        for hbs in (False, True):
            w = {'layout': layout, 'run': False, 'has_build_subdir': hbs}
            mr = _fire(mrows, w, mfn.name)
            br = _fire(brows, w, bqn)
            got, want = eval_term(mr[1], hbs), eval_term(br[1], hbs)
            n += 1
            what = f'layout={layout}, build_subdir {"set" if hbs else "empty"}'
            ctx.require(got == want, f'{mfn.name} vs {bqn}: {what}: both give {fmt_term(br[1])}', mod, mfn.name, f'{what} -> {norm(mr[2])}',
                        f'for {what} intro-targets.json places the outputs in `{fmt_term(mr[1])}` but the backend generates them in '
                        f'`{fmt_term(br[1])}` ({bqn})', mr[2])
    ctx.floor('layout worlds compared', n, 4)



# ---------------------------------------------------------------------------
# R1a tests / benchmarks: one producer call for the pickle and for the JSON

def _resolved_method(ctx: RuleCtx, name: str) -> T.Tuple[Module, str, FuncNode]:
    """Method `name` as the ninja backend inherits it (an override would be analysed instead)."""
    for m, c in _ninja_mro(ctx):
        for st in c.body:
            if isinstance(st, (ast.FunctionDef, ast.AsyncFunctionDef)) and st.name == name:
                return m, f'{c.name}.{name}', st
    raise Undecided(f'NinjaBackend.{name} cannot be resolved')


def _ninja_mro(ctx: RuleCtx) -> T.List[T.Tuple[Module, ast.ClassDef]]:
    """MRO of NinjaBackend, computed once per repository object (Repo.mro re-walks the import table on every call)."""
    cached = getattr(ctx.repo, '_c15_ninja_mro', None)
    if cached is None:
        nmod = ctx.repo.module(NINJA)
        cached = ctx.repo.mro(nmod, nmod.cls('NinjaBackend'))
        if len(cached) < 2:
            raise Undecided('NinjaBackend: base class Backend cannot be resolved')
        setattr(ctx.repo, '_c15_ninja_mro', cached)
    return cached


def _only_stmt_call(fn: FuncNode, qn: str) -> ast.Call:
    body = [s for s in fn.body if not (isinstance(s, ast.Expr) and isinstance(s.value, ast.Constant))]
    if len(body) == 1 and isinstance(body[0], (ast.Expr, ast.Return)) and isinstance(body[0].value, ast.Call):
        return body[0].value
    raise Undecided(f'{qn}: body is not a single call')


def _pickled_test_getters(ctx: RuleCtx) -> T.Dict[str, T.Tuple[str, str]]:
    """data file name -> (Build getter whose tests are pickled into it, where).  Works on the normal form of serialize_tests, in which the
    writer wrappers (write_test_file -> write_test_serialisation) are inlined."""
    m, qn, ser = _resolved_method(ctx, 'serialize_tests')
    ser = normal_func(m, qn, fn=ser)
    out: T.Dict[str, T.Tuple[str, str]] = {}
    loc = Locals(ser)
    _, _, cts = _resolved_method(ctx, 'create_test_serialisation')
    for w in [n for n in ast.walk(ser) if isinstance(n, ast.With)]:
        if len(w.items) != 1 or not isinstance(w.items[0].optional_vars, ast.Name):
            raise Undecided(f'{qn}: with-statement not understood: {short(w)}')
        op = w.items[0].context_expr
        if not (isinstance(op, ast.Call) and call_method(op) == 'open' and op.args):
            raise Undecided(f'{qn}: {short(op)} is not open(...)')
        names = [x for x in _const_strings(ctx, m, _inline(loc, op.args[0])) if x.endswith('.dat')]
        fvar = w.items[0].optional_vars.id
        dumps = [c for st in w.body for c in ast.walk(st) if isinstance(c, ast.Call) and call_method(c) == 'dump' and recv(c) == 'pickle']
        if len(names) != 1 or len(dumps) != 1:
            raise Undecided(f'{qn}: cannot pair data file and pickled object in {short(w)}')
        db = bind_args(dumps[0], None, ['obj', 'file'])
        if 'obj' not in db or 'file' not in db or norm(_inline(loc, db['file'])) != fvar:
            raise Undecided(f'{qn}: pickle.dump call not understood: {short(dumps[0])}')
        obj = _inline(loc, db['obj'])
        ok = positive = False
        getter = ''
        if is_call_on(obj, 'self', 'create_test_serialisation'):
            a0 = bind_args(obj, cts).get(param(cts, 0, 'create_test_serialisation'))  # type: ignore[arg-type]
            if a0 is not None:
                a0 = _inline(loc, a0)
                if isinstance(a0, ast.Call) and recv(a0) == 'self.build' and not a0.args and not a0.keywords:
                    ok, getter = True, call_method(a0) or ''
                else:
                    positive = True          # a filtered / re-ordered / other list is pickled
        judge(ctx, ok, f'{qn}: {names[0]} receives pickle.dump(self.create_test_serialisation(self.build.{getter}()))', positive, m, qn, dumps[0],
              f'{names[0]} does not receive the serialisation of a Build test list as such: `{short(obj, 120)}`; mtest and intro-tests.json no longer share a producer', dumps[0])
        if ok:
            out[names[0]] = (getter, qn)
    return out


def _const_strings(ctx: RuleCtx, mod: Module, e: ast.AST) -> T.List[str]:
    """String constants an expression is made of; names of module/class constants are folded (a literal hoisted into a constant)."""
    from ..consteval import fold_expr
    out = list(const_strs(e))
    for n in ast.walk(e):
        if isinstance(n, (ast.Name, ast.Attribute)) and (isinstance(n, ast.Name) or attr_chain(n) is not None):
            try:
                v = fold_expr(ctx.repo, mod, n)
            except Exception:
                continue
            if isinstance(v, str):
                out.append(v)
    return out


def _mtest_files(ctx: RuleCtx) -> T.Dict[bool, str]:
    """benchmark mode -> data file mtest loads."""
    mod = ctx.repo.module(MTEST)
    out: T.Dict[bool, str] = {}
    users = [normal_func(mod, q, inline=0) for q, f in mod.funcs().items() if q.count('.') <= 1 and any(recv(c) == 'self' for c in method_calls(f, 'load_tests', nested=False))]
    pm: T.Dict[ast.AST, ast.AST] = {}
    for f in users:
        pm.update(parents(f))
    sites: T.List[T.Tuple[ast.AST, ast.AST]] = []       # (node whose guards give the mode, file name expression)
    for f in users:
        floc = Locals(f)
        for c in method_calls(f, 'load_tests', nested=False):
            if recv(c) != 'self':
                continue
            a_ = bind_args(c, mod.func('TestHarness.load_tests')).get(param(mod.func('TestHarness.load_tests'), 0, 'load_tests'))
            if a_ is None:
                raise Undecided(f'mtest: load_tests call without a file: {short(c)}')
            if isinstance(a_, ast.Name) and len(floc.defs.get(a_.id, [])) > 1 and all(d is not None for d in floc.defs[a_.id]):
                for st_ in ast.walk(f):          # the file name is chosen per branch, the load is common
                    if isinstance(st_, (ast.Assign, ast.AnnAssign)) and getattr(st_, 'value', None) in floc.defs[a_.id]:
                        sites.append((st_, st_.value))
            else:
                sites.append((c, _inline(floc, a_)))
    for c, fexpr in sites:
        names_ = _const_strings(ctx, mod, fexpr)
        if len(names_) != 1:
            raise Undecided(f'mtest: load_tests call with a non-literal file: {short(fexpr)}')
        node: ast.AST = c
        mode: T.Optional[bool] = None
        while node in pm:
            par = pm[node]
            if isinstance(par, ast.If):
                pol = node in par.body
                if node in par.body or node in par.orelse:
                    t = par.test
                    if isinstance(t, ast.UnaryOp) and isinstance(t.op, ast.Not):
                        t, pol = t.operand, not pol
                    if (attr_chain(t) or '').endswith('options.benchmark'):
                        mode = pol
                        break
            node = par
        if mode is None or mode in out:
            raise Undecided(f'mtest: cannot tell for which mode {short(c)} is loaded')
        out[mode] = names_[0]
    lt = mod.func('TestHarness.load_tests')
    loads = [l for l in method_calls(lt, 'load') if recv(l) == 'pickle']
    fl = Flow(lt)
    ok = len(loads) == 1 and any(f'param:{param(lt, 0, "load_tests")}' in fl.origins(w.items[0].context_expr)
                                 for w in ast.walk(lt) if isinstance(w, ast.With))
    judge(ctx, ok, 'mtest.load_tests unpickles the file it is given', False, mod, 'TestHarness.load_tests', lt, 'load_tests does not unpickle its file_name argument')
    return out


def r1a(ctx: RuleCtx) -> None:
    mod = ctx.repo.module(MINTRO)
    pickled = _pickled_test_getters(ctx)
    loaded = _mtest_files(ctx)
    ctx.floor('test data files written by serialize_tests', len(pickled), 2)
    ctx.floor('modes of mtest with a data file', len(loaded), 2)
    # generate() of the ninja backend always serialises the tests
    nmod = ctx.repo.module(NINJA)
    gt = nmod.func('NinjaBackend.generate_tests')
    judge(ctx, any(recv(c) == 'self' for c in method_calls(gt, 'serialize_tests', nested=False)), 'NinjaBackend.generate_tests calls self.serialize_tests()',
          False, nmod, 'NinjaBackend.generate_tests', gt, 'generate_tests no longer pickles the test data through serialize_tests')
    _always_runs(ctx, 'generate_tests')
    for kind, mode in (('tests', False), ('benchmarks', True)):
        fn = normal_func(mod, intro_func(mod, kind).name)
        qn = fn.name
        pb, pk = param(fn, 1, qn), param(fn, 2, qn)
        fname = loaded.get(mode)
        if fname is None or fname not in pickled:
            ctx.violation(MTEST, 'TestHarness', f'load_tests({fname!r})', f'`meson test` (benchmark={mode}) loads {fname!r}, which serialize_tests does not write ({sorted(pickled)})')
            continue
        getter, wqn = pickled[fname]
        calls = [c for c in method_calls(fn, 'create_test_serialisation')]
        loc = Locals(fn)
        _, _, cts = _resolved_method(ctx, 'create_test_serialisation')
        arg = None
        if len(calls) == 1 and recv(calls[0]) == pk:
            a_ = bind_args(calls[0], cts).get(param(cts, 0, 'create_test_serialisation'))
            arg = _inline(loc, a_) if a_ is not None else None
        ok = arg is not None and is_call_on(arg, pb, getter) and not arg.args  # type: ignore[union-attr]
        # positive evidence: several serialisations are mixed, or the one that is made is of another list of the build
        positive = len(calls) > 1 or (arg is not None and isinstance(arg, ast.Call) and recv(arg) == pb and call_method(arg) != getter)
        judge(ctx, ok, f'intro-{kind}.json: {qn} serialises {pb}.{getter}() with {pk}.create_test_serialisation — the call pickled into {fname} by {wqn}',
              positive, mod, qn, calls[0] if calls else fn,
              f'intro-{kind}.json is not built from {pk}.create_test_serialisation({pb}.{getter}()), the data `meson test` '
              f'(benchmark={mode}) loads from {fname}: got {short(arg) if arg is not None else [short(c) for c in calls]}')
        fl = Flow(fn)
        rets = [r for r in ast.walk(fn) if isinstance(r, ast.Return) and r.value is not None]
        want = f'call:{pk}.create_test_serialisation'
        okr = bool(rets) and all(want in fl.origins(r.value) for r in rets)
        others = sorted({o for r in rets for o in fl.origins(r.value) if o.startswith('call:') and o not in (want, f'call:{pb}.{getter}')})
        proj = [o[5:] for o in others if mod.has_func(o[5:])]
        foreign = [o for o in others if o[5:].split('.')[0] in (pb, pk, param(fn, 0, qn))]
        judge(ctx, okr and len(others) == len(proj) <= 1, f'{qn}: the result is a projection ({", ".join(proj) or "identity"}) of that serialisation only', bool(foreign), mod, qn,
              rets[0] if rets else fn, f'the returned data does not (only) derive from the serialisation: sources {others}')



def _always_runs(ctx: RuleCtx, method: str) -> None:
    """Every normal path through NinjaBackend.generate calls self.<method>()."""
    nmod = ctx.repo.module(NINJA)
    gen = nmod.func('NinjaBackend.generate')
    cfg = CFG(gen)
    nodes = cfg.nodes_with_call(lambda c: call_method(c) == method and recv(c) == 'self')
    ok = bool(nodes) and cfg.must_pass(cfg.entry, cfg.exit_return, nodes, no_exc=True)
    judge(ctx, ok, f'NinjaBackend.generate: every normal path runs self.{method}()', bool(nodes), nmod, 'NinjaBackend.generate', f'self.{method}()',
          f'NinjaBackend.generate can return without calling self.{method}(): the data file the tools load is stale or missing '
          'while the intro file is regenerated')


# ---------------------------------------------------------------------------
# R1b install data: one producer call for install.dat and for the JSON

def _install_source(ctx: RuleCtx, fn: FuncNode, qn: str, pk: str) -> T.Tuple[T.Optional[str], T.List[ast.Call]]:
    """Local variable holding <backend>.create_install_data() in fn."""
    calls = [c for c in method_calls(fn, 'create_install_data')]
    var = None
    for n in ast.walk(fn):
        if isinstance(n, ast.Assign) and len(n.targets) == 1 and isinstance(n.targets[0], ast.Name) and n.value in calls:
            var = n.targets[0].id
    return var, calls


def r1b(ctx: RuleCtx) -> None:
    mod = ctx.repo.module(MINTRO)
    # producer side
    m, qn, cf = _resolved_method(ctx, 'create_install_data_files')
    cf = normal_func(m, qn, fn=cf)
    dumps = [d for d in method_calls(cf, 'dump') if recv(d) == 'pickle']
    loc = Locals(cf)
    files: T.List[str] = []
    for w in [n for n in ast.walk(cf) if isinstance(n, ast.With)]:
        op = w.items[0].context_expr
        if isinstance(op, ast.Call) and call_method(op) == 'open' and op.args:
            files += [x for x in _const_strings(ctx, m, _inline(loc, op.args[0])) if x.endswith('.dat')]
    obj = None
    if len(dumps) == 1:
        db = bind_args(dumps[0], None, ['obj', 'file'])
        obj = _inline(loc, db['obj']) if 'obj' in db else None
    ok = obj is not None and is_call_on(obj, 'self', 'create_install_data') and len(files) == 1
    judge(ctx, ok, f'{qn} pickles self.create_install_data() into {files}', obj is not None and len(files) == 1 and not isinstance(obj, ast.Name), m, qn, cf,
          f'{qn} pickles `{short(obj)}`, not self.create_install_data(), into {files}')
    nmod = ctx.repo.module(NINJA)
    gi = nmod.func('NinjaBackend.generate_install')
    judge(ctx, any(recv(c) == 'self' for c in method_calls(gi, 'create_install_data_files', nested=False)),
          'NinjaBackend.generate_install calls self.create_install_data_files()', False, nmod, 'NinjaBackend.generate_install', gi,
          'generate_install no longer writes install.dat through create_install_data_files')
    _always_runs(ctx, 'generate_install')
    # consumer side (meson install)
    imod = ctx.repo.module(MINSTALL)
    run = imod.func('run')
    rloc = Locals(run)
    di_calls = [c for c in embedded_calls(ast.Module(body=run.body, type_ignores=[])) if call_method(c) == 'do_install']
    dif = imod.func('Installer.do_install')
    loaded = set()
    for c in di_calls:
        a_ = bind_args(c, dif).get(param(dif, 0, 'do_install'))
        if a_ is not None:
            loaded |= set(_const_strings(ctx, imod, _inline(rloc, a_)))      # a literal or a module constant holding it
    ok = bool(di_calls) and len(loaded) == 1 and len(files) == 1 and next(iter(loaded)).split('/')[-1] == files[0]
    judge(ctx, ok, f'minstall.run installs from {sorted(loaded)} — the file {qn} writes', len(loaded) == 1 and len(files) == 1, imod, 'run', run,
          f'`meson install` loads {sorted(loaded)} but the backend writes {files}')
    di = imod.func('Installer.do_install')
    dloc = Locals(di)
    dvars = [k for k, v in dloc.defs.items() if len(v) == 1 and isinstance(v[0], ast.Call) and call_method(v[0]) == 'load_install_data'
             and [norm(a) for a in v[0].args] == [param(di, 0, 'do_install')]]
    judge(ctx, len(dvars) == 1, 'Installer.do_install unpickles its datafilename argument', False, imod, 'Installer.do_install', di,
          'do_install does not load the install data from the file it is given')
    # introspection side
    n_inst = 0
    for kind in ('installed', 'install_plan', 'targets'):
        fn = normal_func(mod, intro_func(mod, kind).name)
        fq = fn.name
        pb, pk = param(fn, 1, fq), param(fn, 2, fq)
        var, calls = _install_source(ctx, fn, fq, pk)
        scope: FuncNode = fn
        if var is None and len(calls) == 1 and recv(calls[0]) == pk and not calls[0].args:
            # the install data is handed straight to a function / to the constructor of a class of this module (a method object):
            # the parameter that receives it is the variable, the callee the scope in which its lists are read
            for oc in ast.walk(fn):
                if isinstance(oc, ast.Call) and isinstance(oc.func, ast.Name) and (calls[0] in oc.args or any(k.value is calls[0] for k in oc.keywords)):
                    cal = mod.func(oc.func.id) if mod.has_func(oc.func.id) else (mod.func(f'{oc.func.id}.__init__') if mod.has_func(f'{oc.func.id}.__init__') else None)
                    if cal is None or any(isinstance(x, (ast.Yield, ast.YieldFrom)) for x in ast.walk(cal)):
                        continue
                    try:
                        bound_ = bind_args(oc, cal)
                    except Undecided:
                        continue
                    ps_ = [k for k, v in bound_.items() if v is calls[0]]
                    if len(ps_) == 1 and not Locals(cal).defs.get(ps_[0]):
                        var, scope = ps_[0], cal
        ok = len(calls) == 1 and recv(calls[0]) == pk and not calls[0].args and var is not None and (scope is not fn or len(Locals(fn).defs.get(var, [])) == 1)
        judge(ctx, ok, f'intro-{kind}.json: {fq} takes the install data from {pk}.create_install_data()', len(calls) > 1, mod, fq, calls[0] if calls else fn,
              f'{fq} calls create_install_data() {len(calls)} times: the entries come from different InstallData objects than the one pickled')
        if not ok:
            continue
        # every InstallData list that is iterated is a field of that object
        lists = _install_lists(ctx)
        for a in ([x for x in ast.walk(fn)] + ([x for x in ast.walk(scope)] if scope is not fn else [])):
            if isinstance(a, ast.Attribute) and a.attr in lists and isinstance(a.ctx, ast.Load):
                base = a.value
                if isinstance(base, ast.Name) and base.id != var and base.id not in (pb, pk) and not is_call_on(Locals(fn).resolve(base), pk, 'create_install_data'):
                    continue       # an unrelated object that happens to have an attribute of that name (e.g. a man page's .data)
                n_inst += 1
                ctx.require(isinstance(base, ast.Name) and base.id == var, f'{fq}: reads {var}.{a.attr}', mod, fq, a,
                            f'{fq} reads {short(a)}: an install list that is not the one of {pk}.create_install_data()')
        fl = Flow(fn)
        want = f'call:{pk}.create_install_data'
        if kind == 'targets':
            sinks = [v for _, k, v, _ in subscript_stores(fn) if k == 'install_filename']
            sinks += [dict_entries(d)['install_filename'] for d in ast.walk(fn) if isinstance(d, ast.Dict) and 'install_filename' in dict_entries(d)]
            what = 'install_filename'
        else:
            sinks = [r.value for r in ast.walk(fn) if isinstance(r, ast.Return) and r.value is not None]
            what = 'the result'
        okf = bool(sinks) and all(want in fl.origins(x) for x in sinks)
        judge(ctx, okf, f'{fq}: {what} derives from that install data', False, mod, fq, sinks[0] if sinks else fn, f'{fq}: {what} does not derive from {pk}.create_install_data()')
        if kind != 'targets':
            foreign = sorted({o for x in sinks for o in fl.origins(x) if o.startswith('call:') and o != want
                              and o[5:].split('.')[0] in (pb, pk, param(fn, 0, fq))})
            ctx.require(not foreign, f'{fq}: no second producer besides create_install_data', mod, fq, sinks[0],
                        f'{fq} mixes in data from {foreign}, which `meson install` never sees')
    ctx.floor('install list iterations in mintro', n_inst, 13)


def _install_lists(ctx: RuleCtx) -> T.List[str]:
    """List-valued fields of InstallData (assigned an empty list display in __post_init__)."""
    bm = ctx.repo.module(BACKENDS)
    pi = bm.func('InstallData.__post_init__')
    out = []
    for n in ast.walk(pi):
        tg = n.target if isinstance(n, ast.AnnAssign) else (n.targets[0] if isinstance(n, ast.Assign) and len(n.targets) == 1 else None)
        if tg is not None and isinstance(tg, ast.Attribute) and attr_chain(tg) == f'self.{tg.attr}' and isinstance(getattr(n, 'value', None), ast.List):
            out.append(tg.attr)
    if len(out) < 8:
        raise Undecided(f'InstallData.__post_init__: only {len(out)} list fields found')
    return out



# ---------------------------------------------------------------------------
# R1c target_sources: the per-target store filled by the statement generators

STORE = 'introspection_data'
STORE_WRITERS = {'__init__', 'generate_target', 'create_target_source_introspection', 'create_target_linker_introspection'}


def _key_is_target_id(fn: FuncNode, key: ast.AST) -> T.Optional[bool]:
    """True: <param>.get_id(); False: visibly something else derived from a parameter; None: cannot tell."""
    try:
        k = Locals(fn).resolve(key)
    except Undecided:
        return None
    ps = params(fn)
    if isinstance(k, ast.Call) and call_method(k) == 'get_id' and not k.args and recv(k) in ps:
        return True
    if isinstance(k, ast.Name) and k.id in ps:
        # keyed by a bare parameter: wrong when the function itself computes <param>.get_id() (it has the id and does not use it), else unknown
        has_id = any(isinstance(c, ast.Call) and call_method(c) == 'get_id' and recv(c) in ps for c in ast.walk(fn))
        return False if has_id else None
    if isinstance(k, ast.Call) and recv(k) in ps and not k.args:
        return False
    return None


def r1c(ctx: RuleCtx) -> None:
    mod = ctx.repo.module(MINTRO)
    fn = intro_func(mod, 'targets')
    qn = fn.name
    pb, pk = param(fn, 1, qn), param(fn, 2, qn)
    ents = [dict_entries(d)['target_sources'] for d in ast.walk(fn) if isinstance(d, ast.Dict) and 'target_sources' in dict_entries(d)]
    ents += [v for _, k, v, _ in subscript_stores(fn) if k == 'target_sources']
    if len(ents) != 1:
        raise Undecided(f'{qn}: expected one target_sources entry, found {len(ents)}')
    floc = Locals(fn)
    e = floc.resolve(ents[0])
    loops = [l for l in ast.walk(fn) if isinstance(l, ast.For) and norm(_inline(floc, l.iter)) == f'{pb}.get_targets().items()' and isinstance(l.target, ast.Tuple)
             and len(l.target.elts) == 2 and all(isinstance(x, ast.Name) for x in l.target.elts)]
    ok = positive = False
    if len(loops) == 1 and is_call_on(e, pk, 'get_introspection_data'):
        _, _, gid = _resolved_method(ctx, 'get_introspection_data')
        eb = bind_args(e, gid)  # type: ignore[arg-type]
        got = [norm(eb[p_]) if p_ in eb else '<missing>' for p_ in params(gid)[:2]]
        ok = got == [norm(x) for x in loops[0].target.elts]
        positive = not ok and '<missing>' not in got
    judge(ctx, ok, f'{qn}: target_sources = {pk}.get_introspection_data(id, target) for every item of {pb}.get_targets()', positive, mod, qn, ents[0],
          f'target_sources is `{short(e)}`, not {pk}.get_introspection_data(<id>, <target>) over the items of {pb}.get_targets()')
    # reader
    nmod = ctx.repo.module(NINJA)
    rd = nmod.func('NinjaBackend.get_introspection_data')
    p0 = param(rd, 0, 'get_introspection_data')
    keyed = []
    for n in ast.walk(rd):
        if isinstance(n, ast.Call) and call_method(n) in ('get', 'pop', 'setdefault') and recv(n) == f'self.{STORE}' and n.args and norm(n.args[0]) == p0:
            keyed.append(n)
        if isinstance(n, ast.Subscript) and attr_chain(n.value) == f'self.{STORE}' and norm(n.slice) == p0:
            keyed.append(n)
    fl = Flow(rd)
    rets = [r for r in ast.walk(rd) if isinstance(r, ast.Return) and r.value is not None]
    ok = bool(keyed) and any(f'attr:self.{STORE}' in fl.origins(r.value) for r in rets)
    deferred: T.List[Undecided] = []
    try:
        judge(ctx, ok, f'NinjaBackend.get_introspection_data returns self.{STORE}[target id]', False, nmod, 'NinjaBackend.get_introspection_data', rd,
              f'get_introspection_data does not return the entry of self.{STORE} for its target id')
    except Undecided as e_:
        deferred.append(e_)      # the who-may-write obligations below are independent of this one: evaluate them first
    # writers (K2) and keys
    writers: T.Dict[str, int] = {}
    nkeys = 0
    for name, m in nmod.methods('NinjaBackend').items():
        aliases: T.Set[str] = set()
        for n in ast.walk(m):
            if isinstance(n, ast.Subscript) and attr_chain(n.value) == f'self.{STORE}':
                nkeys += 1
                kk = _key_is_target_id(m, n.slice)
                if kk is None and name == rd.name and norm(n.slice) == p0:
                    kk = True          # the reader is handed the id itself
                judge(ctx, kk is True, f'NinjaBackend.{name}: self.{STORE}[{short(n.slice)}] is keyed by <target>.get_id()', kk is False, nmod,
                      f'NinjaBackend.{name}', n, f'the per-target store is indexed by `{short(n.slice)}`, not by the id of the target being generated; '
                      'list_targets looks it up by the id key of Build.targets')
            if isinstance(n, ast.Assign) and len(n.targets) == 1 and isinstance(n.targets[0], ast.Name) and isinstance(n.value, ast.Subscript) \
                    and attr_chain(n.value.value) == f'self.{STORE}':
                aliases.add(n.targets[0].id)
        for n in ast.walk(m):
            tg: T.List[ast.AST] = []
            if isinstance(n, ast.Assign):
                tg = list(n.targets)
            elif isinstance(n, (ast.AnnAssign, ast.AugAssign)):
                tg = [n.target]
            elif isinstance(n, ast.Delete):
                tg = list(n.targets)
            for t in tg:
                base = t.value if isinstance(t, ast.Subscript) else t
                if attr_chain(base) == f'self.{STORE}' or (isinstance(t, ast.Subscript) and isinstance(base, ast.Name) and base.id in aliases):
                    writers[name] = writers.get(name, 0) + 1
            if isinstance(n, ast.Call) and isinstance(n.func, ast.Attribute) and n.func.attr in ('update', 'setdefault', 'pop', 'clear', 'popitem') \
                    and (attr_chain(n.func.value) == f'self.{STORE}'):
                writers[name] = writers.get(name, 0) + 1
    # a private helper whose only callers (inside the class) are allowed writers writes on their behalf
    allowed = set(STORE_WRITERS)
    callers: T.Dict[str, T.Set[str]] = {}
    for cname, cm in nmod.methods('NinjaBackend').items():
        for c in ast.walk(cm):
            if isinstance(c, ast.Call) and recv(c) == 'self' and call_method(c) in writers:
                callers.setdefault(call_method(c) or '', set()).add(cname)
    for _ in range(3):
        for w in writers:
            if w not in allowed and w.startswith('_') and callers.get(w) and callers[w] <= allowed:
                allowed.add(w)
    extra = sorted(set(writers) - allowed)
    ctx.require(not extra, f'self.{STORE} is written only by {sorted(writers)}', nmod, 'NinjaBackend', f'writers of self.{STORE}: {extra}',
                f'self.{STORE} is also written by {extra}: target_sources no longer mirror the generated compile/link statements only')
    ctx.floor(f'writes to self.{STORE}', sum(writers.values()), 4)
    if deferred:
        raise deferred[0]
    ctx.floor(f'keyed accesses to self.{STORE}', nkeys, 3)
    gt = nmod.func('NinjaBackend.generate_target')
    resets = [n for n in ast.walk(gt) if isinstance(n, ast.Assign) and isinstance(n.targets[0], ast.Subscript) and attr_chain(n.targets[0].value) == f'self.{STORE}'
              and isinstance(n.value, ast.Dict) and not n.value.keys]
    keeps = [c for c in ast.walk(gt) if isinstance(c, ast.Call) and call_method(c) in ('setdefault', 'get') and recv(c) == f'self.{STORE}']
    judge(ctx, len(resets) == 1, 'generate_target starts every build target with an empty entry', not resets and bool(keeps), nmod, 'NinjaBackend.generate_target',
          keeps[0] if keeps else gt, 'generate_target keeps an existing introspection entry of the target instead of starting from an empty one '
          '(sources recorded by an earlier generation of the same backend object stay listed)')
    # ids: Build.targets is keyed by get_id()
    imod = ctx.repo.module(INTERP)
    at = imod.func('Interpreter.add_target')
    if not any(isinstance(n, ast.Subscript) and attr_chain(n.value) == 'self.build.targets' and isinstance(n.ctx, ast.Store) for n in ast.walk(at)):
        at = normal_func(imod, 'Interpreter.add_target', inline=2)     # the registration sits in a private helper: read it in place
    st = [n for n in ast.walk(at) if isinstance(n, ast.Assign) and isinstance(n.targets[0], ast.Subscript) and attr_chain(n.targets[0].value) == 'self.build.targets']
    kk = _key_is_target_id(at, st[0].targets[0].slice) if len(st) == 1 else None  # type: ignore[attr-defined]
    ok = kk is True and norm(st[0].value) == recv(Locals(at).resolve(st[0].targets[0].slice))  # type: ignore[arg-type,attr-defined]
    judge(ctx, ok, 'Interpreter.add_target registers every target under target.get_id()', kk is False, imod, 'Interpreter.add_target', st[0] if st else at,
          'Build.targets is not keyed by the id of the registered target')
    # compile statements record the source they consume
    gsc = normal_func(nmod, 'NinjaBackend.generate_single_compile')
    src, isgen = param(gsc, 1, 'generate_single_compile'), param(gsc, 2, 'generate_single_compile')
    pm = parents(gsc)
    gloc = Locals(gsc)
    from ..tables import canon

    def isgen_value(test: ast.AST, in_body: bool) -> T.Optional[bool]:
        """Value of the is_generated flag implied by being in this branch of `test` (None: the test is about something else)."""
        a, v = canon(test, in_body)
        if a.kind == 'is' and a.args == (isgen, 'False'):
            return not v
        if a.kind == 'is' and a.args == (isgen, 'True'):
            return v
        if a.kind == 'truth' and a.args == (isgen,):
            return v
        if a.kind == 'cmp' and a.args[0] == 'eq' and set(a.args[1:]) == {isgen, 'False'}:
            return not v
        if a.kind == 'cmp' and a.args[0] == 'eq' and set(a.args[1:]) == {isgen, 'True'}:
            return v
        return None

    def guard(node: ast.AST) -> T.Optional[bool]:
        cur = node
        while cur in pm and cur is not gsc:
            par = pm[cur]
            if isinstance(par, ast.If) and (cur in par.body or cur in par.orelse):
                g = isgen_value(par.test, cur in par.body)
                if g is not None:
                    return g
            cur = par
        return None

    def under(e: ast.AST, w: bool, depth: int = 4) -> ast.AST:
        """The expression as it is when is_generated == w: locals defined per branch and conditional expressions on the flag resolved."""
        if depth <= 0:
            return e
        if isinstance(e, ast.IfExp):
            g = isgen_value(e.test, True)
            if g is not None:
                return under(e.body if g == w else e.orelse, w, depth - 1)
        if isinstance(e, ast.Name) and e.id not in params(gsc):
            ds = [d for d in gloc.defs.get(e.id, [])]
            if ds and all(d is not None for d in ds):
                live = []
                for st in ast.walk(gsc):
                    if isinstance(st, (ast.Assign, ast.AnnAssign)) and getattr(st, 'value', None) in ds:
                        g = guard(st)
                        if g is None or g == w:
                            live.append(st.value)
                if len(live) == 1:
                    return under(live[0], w, depth - 1)
        return e
    rec = method_calls(gsc, 'create_target_source_introspection', nested=False)
    seen: T.Set[bool] = set()
    sig = params(nmod.func('NinjaBackend.create_target_source_introspection'))
    for c in rec:
        args = bind_args(c, None, sig)
        gc = guard(c)
        for generated in ([gc] if gc is not None else [False, True]):
            seen.add(generated)
            want = {'sources': '[]' if generated else f'[{src}]', 'generated_sources': f'[{src}]' if generated else '[]'}
            got = {k: norm(under(args[k], generated)) if k in args else '<missing>' for k in want}
            shapes_ok = all(v in ('[]', f'[{src}]') for v in got.values())
            judge(ctx, got == want, f'generate_single_compile ({isgen}={generated}): records {want}', shapes_ok, nmod, 'NinjaBackend.generate_single_compile',
                  f'{isgen}={generated}: {short(c, 90)}', f'for {isgen}={generated} the compile statement of `{src}` is recorded as {got}; expected {want}', c)
    cfg = CFG(gsc)
    rec_nodes = cfg.nodes_with_call(lambda c: call_method(c) == 'create_target_source_introspection')
    fls = Flow(gsc, nested=False)
    elems = [n for n in cfg.nodes_with_call(lambda c: call_method(c) == 'NinjaBuildElement' and len(c.args) >= 4 and f'param:{src}' in fls.origins(c.args[3]))]
    ctx.floor('compile statements built from the source parameter', len(elems), 1)
    for n in elems:
        ctx.require(cfg.must_pass(cfg.entry, n, rec_nodes), 'every compile statement of generate_single_compile is preceded by its introspection record', nmod,
                    'NinjaBackend.generate_single_compile', n.ast, 'a compile statement consuming the source is emitted on a path that did not record the '
                    'source in the introspection store', n.ast)
    if seen != {True, False}:
        raise Undecided(f'generate_single_compile: introspection recorded only for {isgen} in {sorted(seen)}')
    allrec = [c for name, m in nmod.methods('NinjaBackend').items() for c in method_calls(m, 'create_target_source_introspection', nested=False)]
    ctx.floor('create_target_source_introspection call sites', len(allrec), 5)
    bad = [c for c in allrec if not (c.args and isinstance(c.args[0], ast.Name))]
    ctx.require(not bad, f'{len(allrec)} recording sites pass the target being generated', nmod, 'NinjaBackend', bad[0] if bad else 'sites', 'a recording site does not name a target')



# ---------------------------------------------------------------------------
# R1d build options: the projection covers every value store of the get_option() resolver

def _store_fields(omod: Module) -> T.Set[str]:
    init = omod.func('OptionStore.__init__')
    out = set()
    for n in ast.walk(init):
        tg = n.target if isinstance(n, ast.AnnAssign) else (n.targets[0] if isinstance(n, ast.Assign) and len(n.targets) == 1 else None)
        if isinstance(tg, ast.Attribute) and attr_chain(tg) == f'self.{tg.attr}':
            out.add(tg.attr)
    return out


def _value_stores(omod: Module, method: str, fields: T.Set[str], seen: T.Optional[T.Set[str]] = None) -> T.Set[str]:
    """Instance fields of OptionStore whose content can reach the value returned by `method` (through self.<m>() results)."""
    seen = seen if seen is not None else set()
    if method in seen or not omod.has_func(f'OptionStore.{method}'):
        return set()
    seen.add(method)
    fn = omod.func(f'OptionStore.{method}')
    fl = Flow(fn, nested=False)
    out: T.Set[str] = set()
    for r in walk_no_nested(fn):
        if isinstance(r, ast.Return) and r.value is not None:
            for o in fl.origins(r.value):
                if o.startswith('attr:self.') and o.split('.')[1] in fields:
                    out.add(o.split('.')[1])
                elif o.startswith('call:self.') and o.count('.') == 1:
                    out |= _value_stores(omod, o.split('.')[1], fields, seen)
    return out


def _returns_bool(fn: FuncNode) -> bool:
    return fn.returns is not None and norm(fn.returns) == 'bool'


def r1d(ctx: RuleCtx) -> None:
    mod = ctx.repo.module(MINTRO)
    omod = ctx.repo.module(OPTIONS)
    imod = ctx.repo.module(INTERP)
    fields = _store_fields(omod)
    # the resolver get_option() uses
    go = imod.func('Interpreter.func_get_option')
    fl = Flow(go)
    res: T.Set[str] = set()
    for r in ast.walk(go):
        if isinstance(r, ast.Return) and r.value is not None:
            res |= {o.split('.')[-1] for o in fl.origins(r.value) if o.startswith('call:self.coredata.optstore.')}
    res = {m for m in res if omod.has_func(f'OptionStore.{m}') and not _returns_bool(omod.func(f'OptionStore.{m}'))}
    if len(res) != 1:
        raise Undecided(f'func_get_option: cannot single out the OptionStore resolver (candidates {sorted(res)})')
    resolver = next(iter(res))
    need = _value_stores(omod, resolver, fields)
    ctx.floor(f'value stores read by OptionStore.{resolver}', len(need), 2)
    ctx.note(f'get_option() resolves through OptionStore.{resolver}; value stores: {sorted(need)}')
    # every producer of intro-buildoptions.json goes through one projection
    lb = intro_func(mod, 'buildoptions')
    c = _only_stmt_call(lb, lb.name)
    if not (isinstance(c.func, ast.Name) and mod.has_func(c.func.id) and c.args and norm(c.args[0]) == param(lb, 0, lb.name)):
        raise Undecided(f'{lb.name}: not a projection of its coredata argument: {short(c)}')
    proj = mod.func(c.func.id)
    pq = proj.name
    ctx.ok(f'intro-buildoptions.json: {lb.name} -> {pq}(coredata)')
    ub = mod.func('update_build_options')
    ucalls = [x for x in ast.walk(ub) if isinstance(x, ast.Call) and isinstance(x.func, ast.Name) and x.func.id == pq]
    others_ = [x for t_ in ast.walk(ub) if isinstance(t_, ast.Tuple) and len(t_.elts) == 2 and isinstance(t_.elts[0], ast.Constant) and t_.elts[0].value == 'buildoptions'
               for x in [t_.elts[1]] if isinstance(x, ast.Call) and isinstance(x.func, ast.Name) and x.func.id != pq and mod.has_func(x.func.id)]
    okc = len(ucalls) == 1 and norm(bind_args(ucalls[0], proj).get(param(proj, 0, pq))) == param(ub, 0, 'update_build_options')
    judge(ctx, okc, f'update_build_options (meson configure) uses the same {pq}', bool(others_),
          mod, 'update_build_options', others_[0] if others_ else ub, f'update_build_options rewrites intro-buildoptions.json through '
          f'{others_[0].func.id if others_ else "?"}, not through {pq}(coredata) that the configure step uses')  # type: ignore[attr-defined]
    p0 = param(proj, 0, pq)
    root = f'{p0}.optstore'
    covered: T.Dict[str, str] = {}
    ploc = Locals(proj)
    roots = {root} | {k for k, v in ploc.defs.items() if len(v) == 1 and v[0] is not None and attr_chain(v[0]) == root}
    for n in ast.walk(proj):
        if isinstance(n, ast.Attribute) and attr_chain(n.value) in roots:
            if n.attr in fields:
                covered.setdefault(n.attr, f'{root}.{n.attr}')
            elif omod.has_func(f'OptionStore.{n.attr}') and not _returns_bool(omod.func(f'OptionStore.{n.attr}')):
                for f in _value_stores(omod, n.attr, fields):
                    covered.setdefault(f, f'{root}.{n.attr}()')
    # closed world: the store is not handed to a helper this rule does not look into
    handed = [c for c in ast.walk(proj) if isinstance(c, ast.Call) and not (isinstance(c.func, ast.Attribute) and attr_chain(c.func.value) in roots)
              and any((attr_chain(a) or '').split('.')[0] in ({p0} | {r for r in roots if '.' not in r}) and (attr_chain(a) in roots or attr_chain(a) == p0)
                      for a in list(c.args) + [k.value for k in c.keywords])]
    for f in sorted(need):
        judge(ctx, f in covered, f'{pq}: reads the value store `{f}` ({covered.get(f)})', not handed, mod, pq, f'{root}.{f}', node=proj, msg=
                    f'get_option() resolves values through OptionStore.{resolver}, which reads the stores {sorted(need)}; {pq} never reads `{f}`, so values '
                    f'held only there (per-subproject overrides such as -Dsub:warning_level=3) are returned by get_option() but absent from intro-buildoptions.json')
    # the emitted value comes from the option objects handed in, and those come from the store
    emit = [(f2, d) for f2 in ast.walk(proj) if isinstance(f2, (ast.FunctionDef,)) for d in walk_no_nested(f2)
            if isinstance(d, ast.Dict) and {'name', 'value'} <= set(dict_entries(d))]
    emit = [(f2, d) for f2, d in emit if f2 is not proj] or emit
    if len(emit) != 1:
        raise Undecided(f'{pq}: expected one option-entry dict, found {len(emit)}')
    ef, ed = emit[0]
    val = dict_entries(ed)['value']
    efl = Flow(ef)
    eo = efl.origins(val)
    cur = any((o.startswith('attr:') and o.endswith('.value') and o.count('.') == 1) or o == f'call:{root}.{resolver}' or o == f'call:{root}.get_value_for' for o in eo)
    other_attr = sorted(o for o in eo if o.startswith('attr:') and o.count('.') == 1 and o.split('.')[1] in ('default', 'description', 'name', 'choices', 'parent'))
    judge(ctx, cur, f'{pq}: emitted "value" is the current value of the option (`{short(val)}`)', bool(other_attr), mod, pq, val,
          f'"value" is `{short(val)}`: it reads {other_attr} instead of the option object\'s .value / a resolver result, so it is not what get_option() returned')
    # the resolver may return several attribute paths of the option object (its own value, the parent's value of a yielding option ...)
    rfn = omod.func(f'OptionStore.{resolver}')
    rfl = Flow(rfn, nested=False)
    rps = set(params(rfn)) | {'self'}
    res_paths: T.Set[str] = set()
    for r_ in walk_no_nested(rfn):
        if isinstance(r_, ast.Return) and r_.value is not None:
            for o in rfl.origins(r_.value):
                if o.startswith('attr:') and o[5:].split('.')[0] not in rps and o.endswith('.value'):
                    res_paths.add(o[5:].split('.', 1)[1])
    got_paths = {o[5:].split('.', 1)[1] for o in eo if o.startswith('attr:') and o.endswith('.value') and '.' in o[5:] and not o.startswith(f'attr:{root}')}
    uses_resolver = any(o in (f'call:{root}.{resolver}', f'call:{root}.get_value_for') for o in eo)
    ctx.note(f'option-object value paths the resolver may return: {sorted(res_paths)}; read by the projection: {sorted(got_paths)}')
    # a value path the resolver takes only under a condition on the option object must be taken under that condition here as well
    def guard_attrs(fnode: ast.AST, reader: ast.AST) -> T.Optional[T.Set[str]]:
        """Attributes of the object `reader` is read from that are tested true on the way to `reader` (conjunctions only)."""
        obj = reader
        while isinstance(obj, ast.Attribute):
            obj = obj.value
        if not isinstance(obj, ast.Name):
            return None
        pm_ = parents(fnode)
        out_: T.Set[str] = set()
        cur_: ast.AST = reader
        while cur_ in pm_:
            par_ = pm_[cur_]
            if isinstance(par_, (ast.If, ast.IfExp)):
                body_ = par_.body if isinstance(par_.body, list) else [par_.body]
                if any(cur_ is b_ for b_ in body_):
                    t_ = par_.test
                    for x_ in (t_.values if isinstance(t_, ast.BoolOp) and isinstance(t_.op, ast.And) else [t_]):
                        if isinstance(x_, ast.Attribute) and isinstance(x_.value, ast.Name) and x_.value.id == obj.id:
                            out_.add(x_.attr)
                        elif isinstance(x_, ast.BoolOp) and any(isinstance(y_, ast.Name) and y_.id == obj.id for y_ in ast.walk(x_)):
                            return None
            cur_ = par_
        return out_
    for pth_ in sorted(res_paths) if cur else []:
        if pth_ != 'value' and pth_ in got_paths:
            r_readers = [a_ for a_ in ast.walk(rfn) if isinstance(a_, ast.Attribute) and isinstance(a_.ctx, ast.Load) and (attr_chain(a_) or '').split('.', 1)[-1] == pth_]
            p_readers = [a_ for a_ in ast.walk(ef) if isinstance(a_, ast.Attribute) and isinstance(a_.ctx, ast.Load) and (attr_chain(a_) or '').split('.', 1)[-1] == pth_]
            if len(r_readers) == 1 and p_readers:
                need_g = guard_attrs(rfn, r_readers[0])
                for pr_ in p_readers:
                    have_g = guard_attrs(ef, pr_)
                    if need_g is None or have_g is None:
                        raise Undecided(f'{pq}: guard of `.{pth_}` not understood')
                    miss_g = sorted(need_g - have_g)
                    ctx.require(not miss_g, f'{pq}: `.{pth_}` is emitted under the resolver\'s condition {sorted(need_g)}', mod, pq, f'guard of .{pth_}: missing {miss_g}',
                                f'OptionStore.{resolver} returns the option object\'s `.{pth_}` only when its {" and ".join("." + g_ for g_ in sorted(need_g))} holds; {pq} emits `.{pth_}` '
                                f'without testing {", ".join("." + g_ for g_ in miss_g)} (guard seen: {sorted(have_g)}), so it reports a value get_option() did not return', pr_)
    for pth_ in sorted(res_paths) if cur else []:
        judge(ctx, uses_resolver or pth_ in got_paths, f'{pq}: emitted "value" can be the option object\'s `.{pth_}` like the resolver\'s result', cur and not handed, mod, pq,
              f'value path .{pth_}', f'get_option() resolves through OptionStore.{resolver}, which may return the option object\'s `.{pth_}` '
              f'(a yielding subproject option returns its parent\'s value); {pq} always emits `{short(val)}`, so intro-buildoptions.json shows a value get_option() did not return', val)
    if ef is proj:
        ok = any(o.startswith(f'attr:{root}') or o.startswith(f'call:{root}') for o in eo)
        judge(ctx, ok, f'{pq}: emitted value derives from {root}', False, mod, pq, val, f'the emitted value `{short(val)}` does not derive from {root}')
    else:
        eps = params(ef)
        src_params = [p for p in eps if f'param:{p}' in eo]
        direct = any(o.startswith(f'attr:{root}') or o.startswith(f'call:{root}') for o in eo)
        judge(ctx, bool(src_params) or direct, f'{pq}.{ef.name}: emitted value `{short(val)}` derives from its option collection', False, mod, f'{pq}.{ef.name}', val,
              f'the emitted value `{short(val)}` does not derive from the options handed to {ef.name}')
        ofl = Flow(proj)
        sites = [x for x in walk_no_nested(proj) if isinstance(x, ast.Call) and isinstance(x.func, ast.Name) and x.func.id == ef.name]
        ctx.floor(f'{ef.name} call sites', len(sites), 7)
        for x in sites:
            bad = []
            for p in src_params:
                i = eps.index(p)
                if i >= len(x.args):
                    raise Undecided(f'{pq}: call {short(x)} does not pass {p} positionally')
                oo = ofl.origins(x.args[i])
                if not any(o.startswith(f'attr:{root}') or o.startswith(f'call:{root}') for o in oo):
                    bad.append(short(x.args[i]))
            sec = const_strs(x.args[-1]) if x.args else []
            ctx.require(not bad, f'{pq}: section {sec} is filled from {root}', mod, pq, x, f'section {sec}: options {bad} do not come from {root}')


# ---------------------------------------------------------------------------
# R1e dispatch: every documented intro file is produced for (coredata of the build, build, backend)

def _doc_kinds(ctx: RuleCtx) -> T.List[str]:
    import re as _re
    text = ctx.repo.read(IDEDOC)
    kinds = []
    for line in text.splitlines():
        cells = [c.strip() for c in line.split('|')]
        if len(cells) >= 3 and cells[1].startswith('`intro-') and cells[1].endswith('.json`'):
            kinds.append(cells[1][len('`intro-'):-len('.json`')])
    if len(kinds) < 9 or any(not _re.fullmatch(r'[a-z_]+', k) for k in kinds):
        raise Undecided(f'{IDEDOC}: file table not understood ({kinds})')
    return kinds


def r1e(ctx: RuleCtx) -> None:
    mod = ctx.repo.module(MINTRO)
    tab = intro_table(mod)
    doc = _doc_kinds(ctx)
    for k in doc:
        ctx.require(tab.get(k) is not None and mod.has_func(tab[k] or ''), f'documented intro-{k}.json has a configure-time producer ({tab.get(k)})', mod, '<module>',
                    f'INTRO_TYPES[{k!r}]', f'{IDEDOC} documents intro-{k}.json but INTRO_TYPES has no `func` producer for {k!r}')
    gen = normal_func(mod, 'generate_introspection_file', inline=0)
    pb, pk = param(gen, 0, gen.name), param(gen, 1, gen.name)
    loc = Locals(gen)
    loops = [l for l in gen.body if isinstance(l, ast.For) and norm(l.iter) == 'INTRO_TYPES.items()' and isinstance(l.target, ast.Tuple) and len(l.target.elts) == 2]
    if len(loops) != 1:
        raise Undecided('generate_introspection_file: loop over INTRO_TYPES.items() not found')
    kvar, vvar = norm(loops[0].target.elts[0]), norm(loops[0].target.elts[1])
    calls = [c for st in loops[0].body for c in ast.walk(st) if isinstance(c, ast.Call) and attr_chain(c.func) == f'{vvar}.func']
    ok = positive = False
    if len(calls) == 1:
        cb = bind_args(calls[0], None, ['coredata', 'builddata', 'backend'])
        if all(k in cb for k in ('coredata', 'builddata', 'backend')):
            a0 = norm(_inline(loc, cb['coredata']))
            ok = a0 in (f'{pb}.environment.get_coredata()', f'{pb}.environment.coredata', f'{pb}.environment.get_coredata') and [norm(cb['builddata']), norm(cb['backend'])] == [pb, pk]
            positive = not ok
    judge(ctx, ok, f'generate_introspection_file calls every producer with (coredata of {pb}, {pb}, {pk})', positive, mod, gen.name, calls[0] if calls else gen,
          f'the producers are called with ({", ".join(short(a, 50) for a in (calls[0].args if calls else []))}) instead of ({pb}.environment.get_coredata(), {pb}, {pk})')
    # the (kind, data) pair is stored under its own key
    fl = Flow(gen)
    pairs = [t for st in loops[0].body for t in ast.walk(st) if isinstance(t, ast.Tuple) and len(t.elts) == 2 and calls
             and (t.elts[1] is calls[0] or (isinstance(t.elts[1], ast.Name) and loc.defs.get(t.elts[1].id) == [calls[0]]))]
    judge(ctx, len(pairs) == 1 and norm(pairs[0].elts[0]) == kvar, 'each result is paired with its own kind', len(pairs) == 1, mod, gen.name, pairs[0] if pairs else gen,
          'the result of a producer is not stored under the kind it was registered for')
    ok = bool(calls)
    npaths = 0
    for pth in enumerate_paths(loops[0].body, pure={'func'}):
        npaths += 1
        if calls and not any(c is calls[0] for c in pth.calls()):
            if not any(t == f'{vvar}.func' and v is False for t, v in pth.conds()):
                ok = False
    ctx.require(ok, f'only kinds without producer are skipped ({npaths} paths through the dispatch loop)', mod, gen.name, loops[0].iter,
                'a kind that has a producer can be skipped at configure time: its intro file keeps describing an older configuration')
    wi = normal_func(mod, 'write_intro_info')
    w = [c for c in ast.walk(gen) if isinstance(c, ast.Call) and isinstance(c.func, ast.Name) and c.func.id == 'write_intro_info']
    ok = positive = False
    if len(w) == 1:
        wb = bind_args(w[0], wi)
        w0, w1 = param(wi, 0, 'write_intro_info'), param(wi, 1, 'write_intro_info')
        if w0 in wb and w1 in wb:
            d_ = norm(_inline(loc, wb[w1]))
            ok = d_ in (f'{pb}.environment.info_dir', f'{pb}.environment.get_info_dir()') and any(o == f'call:{vvar}.func' for o in fl.origins(wb[w0]))
            positive = d_.startswith(f'{pb}.environment.') and d_ not in (f'{pb}.environment.info_dir', f'{pb}.environment.get_info_dir()')
    judge(ctx, ok, f'the results are written to {pb}.environment.info_dir', positive, mod, gen.name, w[0] if w else gen,
          'the results are written to another directory than builddata.environment.info_dir, where `meson introspect` and the IDEs read them')
    from ..consteval import fold_expr
    wl = [l for l in wi.body if isinstance(l, ast.For) and isinstance(l.target, ast.Tuple) and len(l.target.elts) == 2]
    if len(wl) != 1:
        raise Undecided('write_intro_info: loop over (kind, data) not found')
    kv, dv = norm(wl[0].target.elts[0]), norm(wl[0].target.elts[1])
    wloc = Locals(wi)
    reps = [c for c in method_calls(wl[0], 'replace') if recv(c) == 'os']
    dumps = [c for c in method_calls(wl[0], 'dump') if recv(c) == 'json']
    okn = False
    folded: T.Any = None
    if len(reps) == 1 and len(reps[0].args) == 2:
        dst = reps[0].args[1]
        dd = [v for v in wloc.defs.get(norm(dst), []) if v is not None]
        if len(dd) == 1 and isinstance(dd[0], ast.Call) and call_method(dd[0]) == 'join' and len(dd[0].args) == 2 and norm(dd[0].args[0]) == param(wi, 1, 'write_intro_info'):
            try:
                folded = fold_template(_inline(wloc, dd[0].args[1]), kv)
                if folded is None:
                    folded = fold_expr(ctx.repo, mod, dd[0].args[1], env={kv: 'KIND'})
                okn = folded == 'intro-KIND.json'
            except Undecided:
                okn = False
    judge(ctx, okn and len(dumps) == 1 and norm(bind_args(dumps[0], None, ['obj', 'fp']).get('obj')) == dv, 'write_intro_info writes each datum to <info_dir>/intro-<kind>.json',
          isinstance(folded, str) and not okn, mod, 'write_intro_info', wi,
          f'write_intro_info names the file {folded!r} (KIND = the kind); the documented name is intro-<kind>.json')
    # buildsystem_files: Build.def_files, the list the regeneration rule depends on
    bf = intro_func(mod, 'buildsystem_files')
    bpb = param(bf, 1, bf.name)
    bfl = Flow(bf)
    rets = [r for r in ast.walk(bf) if isinstance(r, ast.Return) and r.value is not None]
    ok = bool(rets) and all(f'attr:{bpb}.def_files' in bfl.origins(r.value) for r in rets)
    others = sorted({o for r in rets for o in bfl.origins(r.value) if o.startswith('call:os.') or o.startswith('call:find_')})
    judge(ctx, ok and not others, f'intro-buildsystem_files.json lists {bpb}.def_files (the files the interpreter read)', bool(others), mod, bf.name, rets[0] if rets else bf,
          f'{bf.name} does not (only) list {bpb}.def_files: extra sources {others}')
    m, qn, rg = _resolved_method(ctx, 'get_regen_filelist')
    rfl = Flow(rg)
    rr = [r for r in ast.walk(rg) if isinstance(r, ast.Return) and r.value is not None]
    judge(ctx, bool(rr) and all('attr:self.build.def_files' in rfl.origins(r.value) for r in rr), f'{qn} (build.ninja regeneration dependencies) reads the same Build.def_files',
          False, m, qn, rg, f'{qn} no longer derives the regeneration dependencies from self.build.def_files')



# ---------------------------------------------------------------------------
# R2a field coverage of the test projection

# documented key (IDE-integration.md "Tests") -> TestSerialisation fields it is made of, in order
TEST_KEYS: T.Dict[str, T.List[str]] = {
    'name': ['name'], 'workdir': ['workdir'], 'timeout': ['timeout'], 'suite': ['suite'], 'is_parallel': ['is_parallel'],
    'protocol': ['protocol'], 'cmd': ['fname', 'cmd_args'], 'depends': ['depends'], 'env': ['env'],
}
# fields mtest reads that do not form command/arguments/environment/cwd/suites/dependencies of the documented entry (one reason each)
TEST_INTERNAL = {
    'expected_fail': 'verdict only', 'expected_exitcode': 'verdict only', 'verbose': 'console output only', 'version': 'data-file version check',
    'project_name': 'test selection by (sub)project name, display', 'is_cross_built': 'exe-wrapper decision', 'needs_exe_wrapper': 'exe-wrapper decision',
    'exe_wrapper': 'exe-wrapper decision (cross builds)', 'cmd_is_built': 'existence check / shebang handling', 'cmd_is_exe': 'exe-wrapper decision',
    'exe_fname': 'existence check', 'cmd_has_interpreter': 'shebang handling on Windows',
}


def _ts_fields(ctx: RuleCtx) -> T.List[str]:
    bm = ctx.repo.module(BACKENDS)
    cls = bm.cls('TestSerialisation')
    out = [st.target.id for st in cls.body if isinstance(st, ast.AnnAssign) and isinstance(st.target, ast.Name)]
    out += [f.name for f in cls.body if isinstance(f, ast.FunctionDef) and any(attr_chain(d) == 'property' for d in f.decorator_list)]
    return out


def _mtest_reads(ctx: RuleCtx, fields: T.List[str]) -> T.Dict[str, T.Set[str]]:
    """TestSerialisation fields read in mtest.py through receivers typed TestSerialisation -> functions reading them."""
    mod = ctx.repo.module(MTEST)
    out: T.Dict[str, T.Set[str]] = {}

    def is_ts(ann: T.Optional[ast.AST]) -> T.Optional[str]:
        if ann is None:
            return None
        t = norm(ann).replace("'", '')
        if t in ('TestSerialisation', 'T.Optional[TestSerialisation]'):
            return 'one'
        if t in ('T.List[TestSerialisation]', 'T.Sequence[TestSerialisation]', 'T.Iterable[TestSerialisation]', 'list[TestSerialisation]'):
            return 'many'
        return None
    # classes that keep a TestSerialisation in self.<attr>
    holders: T.Dict[str, T.Set[str]] = {}
    for cname in mod.classes():
        if not mod.has_func(f'{cname}.__init__'):
            continue
        init = mod.func(f'{cname}.__init__')
        one = {a.arg for a in init.args.args if is_ts(a.annotation) == 'one'}
        for n in ast.walk(init):
            if isinstance(n, ast.Assign) and len(n.targets) == 1 and isinstance(n.targets[0], ast.Attribute) and attr_chain(n.targets[0]) == f'self.{n.targets[0].attr}' \
                    and isinstance(n.value, ast.Name) and n.value.id in one:
                holders.setdefault(cname, set()).add(f'self.{n.targets[0].attr}')
    for q, fn in mod.funcs().items():
        recvs: T.Set[str] = set()
        many: T.Set[str] = set()
        for a in fn.args.posonlyargs + fn.args.args + fn.args.kwonlyargs:
            k = is_ts(a.annotation)
            if k == 'one':
                recvs.add(a.arg)
            elif k == 'many':
                many.add(a.arg)
        for l in ast.walk(fn):
            if isinstance(l, (ast.For, ast.comprehension)) and isinstance(l.target, ast.Name) and isinstance(l.iter, ast.Name) and l.iter.id in many:
                recvs.add(l.target.id)
        cname = q.rsplit('.', 1)[0] if '.' in q else ''
        recvs |= holders.get(cname, set())
        if not recvs:
            continue
        for n in walk_no_nested(fn):
            if isinstance(n, ast.Attribute) and n.attr in fields and attr_chain(n.value) in recvs:
                out.setdefault(n.attr, set()).add(q)
    return out


def _doc_test_keys(ctx: RuleCtx) -> T.List[str]:
    import re as _re
    text = ctx.repo.read(IDEDOC)
    i = text.find('\n## Tests')
    j = text.find('\n## ', i + 1)
    sec = text[i:j if j > 0 else len(text)]
    m = _re.search(r'```json\n(.*?)```', sec, _re.S)
    if i < 0 or not m:
        raise Undecided(f'{IDEDOC}: "Tests" section / json block not found')
    keys = _re.findall(r'^ {4}"([a-z_]+)":', m.group(1), _re.M)
    if len(keys) < 5:
        raise Undecided(f'{IDEDOC}: test entry keys not understood: {keys}')
    return keys


def r2a(ctx: RuleCtx) -> None:
    mod = ctx.repo.module(MINTRO)
    fields = _ts_fields(ctx)
    doc = _doc_test_keys(ctx)
    if set(doc) != set(TEST_KEYS):
        raise Undecided(f'{IDEDOC} documents the test keys {sorted(doc)}; the reference table knows {sorted(TEST_KEYS)} — update TEST_KEYS')
    reads = _mtest_reads(ctx, fields)
    ctx.floor('TestSerialisation fields read by mtest', len(reads), 20)
    stale = sorted(f for fs in TEST_KEYS.values() for f in fs if f not in reads)
    if stale:
        raise Undecided(f'reference table names fields mtest no longer reads: {stale}')
    # the projection function used by both list_tests and list_benchmarks
    projs = set()
    for kind in ('tests', 'benchmarks'):
        fn = normal_func(mod, intro_func(mod, kind).name)
        rets = [r.value for r in ast.walk(fn) if isinstance(r, ast.Return) and r.value is not None]
        for r in rets:
            r = Locals(fn).resolve(r)
            if isinstance(r, ast.Call) and isinstance(r.func, ast.Name) and mod.has_func(r.func.id):
                projs.add(r.func.id)
            else:
                raise Undecided(f'{fn.name}: result is not <projection>(serialisation): {short(r)}')
    if len(projs) != 1:
        raise Undecided(f'tests and benchmarks use different projections: {sorted(projs)}')
    pf = normal_func(mod, next(iter(projs)))
    pq = pf.name
    p0 = param(pf, 0, pq)
    loops = [l for l in pf.body if isinstance(l, ast.For) and isinstance(l.target, ast.Name) and norm(l.iter) == p0]
    if len(loops) != 1:
        raise Undecided(f'{pq}: loop over the serialisations not found')
    tv = loops[0].target.id
    stores: T.Dict[str, T.List[ast.AST]] = {}
    dvars = set()
    for v, k, val, _ in subscript_stores(loops[0]):
        stores.setdefault(k, []).append(val)
        dvars.add(v)
    for d in ast.walk(loops[0]):
        if isinstance(d, ast.Dict) and d.keys:
            for k, val in dict_entries(d).items():
                stores.setdefault(k, []).append(val)
    for st in ast.walk(loops[0]):
        tg = st.targets[0] if isinstance(st, ast.Assign) and len(st.targets) == 1 else getattr(st, 'target', None) if isinstance(st, ast.AnnAssign) else None
        if isinstance(tg, ast.Name) and isinstance(getattr(st, 'value', None), (ast.Dict, ast.DictComp)) or \
                (isinstance(tg, ast.Name) and isinstance(getattr(st, 'value', None), ast.Call) and call_method(st.value) == 'dict'):
            dvars.add(tg.id)
    ploc2 = Locals(pf)

    def is_entry(e: ast.AST) -> bool:
        if isinstance(e, ast.Name) and e.id not in dvars:
            try:
                e = ploc2.resolve(e)
            except Undecided:
                return False
        return norm(e) in dvars or isinstance(e, ast.Dict)
    app: T.List[ast.AST] = [c for c in method_calls(loops[0], 'append') if c.args and is_entry(c.args[0])]
    app += [c for c in method_calls(loops[0], 'extend') if len(c.args) == 1 and isinstance(c.args[0], (ast.List, ast.Tuple)) and len(c.args[0].elts) == 1 and is_entry(c.args[0].elts[0])]
    coll = [recv(c) for c in app]  # type: ignore[arg-type]
    for a_ in ast.walk(loops[0]):
        if isinstance(a_, ast.AugAssign) and isinstance(a_.op, ast.Add) and isinstance(a_.target, ast.Name) and isinstance(a_.value, (ast.List, ast.Tuple)) \
                and len(a_.value.elts) == 1 and is_entry(a_.value.elts[0]):
            app.append(a_)
            coll.append(a_.target.id)
    rets = [r for r in pf.body if isinstance(r, ast.Return)]
    ok = len(app) == 1 and len(rets) == 1 and coll[0] == norm(rets[0].value)
    if not ok:
        # the per-key obligations below are what matters; an unfamiliar way of collecting the entries is not a defect
        raise Undecided(f'{pq}: cannot see one entry per serialisation being appended to the returned list')
    ctx.ok(f'{pq}: one entry per serialisation is appended to the result')
    # local aliases of a field (fname = [t.fname] / t.fname)
    lfl = Flow(pf)

    def fields_of(e: ast.AST) -> T.List[str]:
        out: T.List[str] = []
        for n in sorted((x for x in ast.walk(e) if isinstance(x, (ast.Attribute, ast.Name))), key=lambda x: (x.lineno, x.col_offset)):
            if isinstance(n, ast.Attribute) and isinstance(n.value, ast.Name) and n.value.id == tv and n.attr in fields:
                out.append(n.attr)
            elif isinstance(n, ast.Name) and n.id != tv and n.id in lfl.defs:
                fs = sorted({o.split('.')[-1] for o in lfl.origins(n) if o.startswith(f'attr:{tv}.') and o.count('.') == 1})
                out.extend(fs)
        return list(dict.fromkeys(out))
    # closed world: neither the serialisation nor the entry is handed to a helper, and the entry is not built by update()/dict(**...)
    closed = True
    for c in ast.walk(loops[0]):
        if isinstance(c, ast.Call) and c not in app and not any(c is x for a2 in app for x in ast.walk(a2)):
            argn = {a.id for a in list(c.args) + [k.value for k in c.keywords] if isinstance(a, ast.Name)}
            if (argn & ({tv} | dvars)) and call_method(c) not in ('isinstance', 'str', 'len'):
                closed = False
            if isinstance(c.func, ast.Attribute) and isinstance(c.func.value, ast.Name) and c.func.value.id in dvars and c.func.attr in ('update', 'setdefault'):
                closed = False
            if any(k.arg is None for k in c.keywords):
                closed = False
    if any(k is None for d in ast.walk(loops[0]) if isinstance(d, ast.Dict) for k in d.keys):
        closed = False
    for key in doc:
        want = TEST_KEYS[key]
        vals = stores.get(key, [])
        got = [fields_of(v) for v in vals]
        ok = bool(vals) and all(g == want for g in got)
        judge(ctx, ok, f'{pq}: "{key}" is projected from TestSerialisation.{"+".join(want)} (read by mtest in {sorted(reads[want[0]])[:2]})', bool(vals) or closed, mod, pq,
                    vals[0] if vals else f'to[{key!r}]', f'documented key "{key}" must carry TestSerialisation.{" + ".join(want)} (what `meson test` uses); '
                    f'{pq} stores {[short(v) for v in vals] or "nothing"} under it (fields {got})')
    # cmd = program followed by arguments
    for v in stores.get('cmd', []):
        ok = isinstance(v, ast.BinOp) and isinstance(v.op, ast.Add) and fields_of(v.left) == ['fname'] and fields_of(v.right) == ['cmd_args']
        ctx.require(ok, f'{pq}: "cmd" is fname followed by cmd_args', mod, pq, v, f'"cmd" is `{short(v)}`; mtest runs fname + cmd_args in that order')
    # exhaustiveness: every field mtest reads is projected or justified
    projected = {f for vs in stores.values() for v in vs for f in fields_of(v)}
    unknown = sorted(f for f in reads if f not in projected and f not in TEST_INTERNAL)
    if unknown:
        raise Undecided(f'mtest reads TestSerialisation fields that are neither projected by {pq} nor in the justified table: {unknown}')
    ctx.ok(f'{len(reads)} fields read by mtest: {len([f for f in reads if f in projected])} projected, {len([f for f in reads if f not in projected])} justified as not part of the documented entry')


# ---------------------------------------------------------------------------
# R2b install plan: filter fields and category coverage

REQUIRED_CATEGORIES = ['targets', 'headers', 'man', 'data', 'install_subdirs']   # property statement


def _iterated_lists(fn: FuncNode, var: str, lists: T.List[str]) -> T.Tuple[T.Set[str], bool]:
    """InstallData lists read from `var` anywhere in fn (loop iterators, tables of pairs, dict displays ...), and whether the world is closed:
    the object itself is not handed to a helper and no list is selected by a computed attribute name."""
    out = {a.attr for a in ast.walk(fn) if isinstance(a, ast.Attribute) and a.attr in lists and isinstance(a.value, ast.Name) and a.value.id == var}
    closed = True
    for c in ast.walk(fn):
        if isinstance(c, ast.Call):
            if any(isinstance(a, ast.Name) and a.id == var for a in list(c.args) + [k.value for k in c.keywords]):
                closed = False      # getattr(installdata, name), helper(installdata), vars(installdata) ...
    return out, closed


def r2b(ctx: RuleCtx) -> None:
    mod = ctx.repo.module(MINTRO)
    imod = ctx.repo.module(MINSTALL)
    si = imod.func('Installer.should_install')
    dp = param(si, 0, 'should_install')
    def attrs_through(fn_: FuncNode, p_: str, depth: int = 2) -> T.List[str]:
        out_ = list(attrs_of(fn_, p_))
        if depth > 0:
            for c_ in ast.walk(fn_):
                if isinstance(c_, ast.Call) and recv(c_) == 'self' and imod.has_func(f'Installer.{call_method(c_)}'):
                    callee_ = imod.func(f'Installer.{call_method(c_)}')
                    for k_, a_ in bind_args(c_, callee_).items():
                        if isinstance(a_, ast.Name) and a_.id == p_:
                            out_ += attrs_through(callee_, k_, depth - 1)
        return out_
    filt = list(dict.fromkeys(attrs_through(si, dp)))
    if len(filt) < 2:
        raise Undecided(f'Installer.should_install: cannot see which fields of its argument decide ({filt})')
    ctx.floor('fields Installer.should_install filters on', len(filt), 2)
    lists = _install_lists(ctx)
    # every per-kind installer consults should_install for each element
    n_inst = 0
    for name in imod.methods('Installer'):
        m = normal_func(imod, f'Installer.{name}')
        for l in walk_no_nested(m):
            if isinstance(l, ast.For) and isinstance(l.iter, ast.Attribute) and l.iter.attr in lists and isinstance(l.target, ast.Name) and '__i' not in l.target.id:
                acts = [c for st_ in l.body for c in ast.walk(st_) if isinstance(c, ast.Call) and isinstance(c.func, ast.Attribute)
                        and (attr_chain(c.func.value) or '').split('.')[0] in ({'self'} | set(params(m))) and c.func.attr != 'log']
                if not acts:
                    continue      # a loop that only inspects / collects the entries (no method of the installer or of a parameter is called): not an installer loop
                n_inst += 1
                asks = [c for c in method_calls(l, 'should_install', nested=False) if recv(c) == 'self' and l.target.id in [norm(a) for a in list(c.args) + [k.value for k in c.keywords]]]
                handed = [c for c in walk_no_nested(l) if isinstance(c, ast.Call) and recv(c) == 'self' and call_method(c) != 'should_install'
                          and any(isinstance(a, ast.Name) and a.id == l.target.id for a in list(c.args) + [k.value for k in c.keywords])]
                # every path through the loop body that does anything with the element has seen should_install(element) come out true first
                ok = bool(asks)
                try:
                    body_paths = enumerate_paths(l.body, pure={'should_install'})
                except Undecided:
                    body_paths = []
                    ok = False
                for pth in body_paths:
                    passed = False
                    for ev in pth.events:
                        if ev.kind == 'cond':
                            t_ = ev.node
                            if isinstance(t_, ast.Call) and t_ in asks:
                                if ev.val:
                                    passed = True
                                else:
                                    break          # rejected element: the rest of the path is the skip
                        elif ev.kind in ('stmt', 'iter', 'with') and ev.node is not None and not passed:
                            touching = [c for c in ast.walk(ev.node) if isinstance(c, ast.Call) and c not in asks
                                        and any(isinstance(x, ast.Name) and x.id == l.target.id for a_ in list(c.args) + [k.value for k in c.keywords] for x in ast.walk(a_))]
                            if touching:
                                ok = False
                if asks and not ok and not body_paths:
                    raise Undecided(f'Installer.{name}: should_install({l.target.id}) is consulted but the loop body could not be enumerated')
                if asks and not ok:
                    handed = []         # a visible path works on the element before the filter said yes: positive evidence
                judge(ctx, ok, f'Installer.{name}: elements of {l.iter.attr} are filtered by should_install', not handed, imod, f'Installer.{name}', l.iter,
                            f'Installer.{name} installs {l.iter.attr} without asking should_install first: tag/subproject in the plan would not predict what is installed', l)
    ctx.floor('per-kind installer loops', n_inst, 7)
    fn = normal_func(mod, intro_func(mod, 'install_plan').name)
    qn = fn.name
    var, calls = _install_source(ctx, fn, qn, param(fn, 2, qn))
    if var is None:
        raise Undecided(f'{qn}: install data variable not found')
    # entry dicts: the element variable is the loop variable the entry is built from
    entries: T.List[T.Tuple[ast.Dict, str]] = []
    seen_d: T.Set[int] = set()

    def collect(scope: T.List[ast.AST], ev: str, depth: int) -> None:
        for root in scope:
            for x in ast.walk(root):
                if isinstance(x, ast.Dict) and 'destination' in dict_entries(x) and id(x) not in seen_d:
                    seen_d.add(id(x))
                    entries.append((x, ev))
                elif depth > 0 and isinstance(x, ast.Call) and isinstance(x.func, ast.Name) and mod.has_func(x.func.id) and not x.keywords:
                    callee = mod.func(x.func.id)
                    cps = params(callee)
                    for i, a in enumerate(x.args):
                        if isinstance(a, ast.Name) and a.id == ev and i < len(cps):
                            collect(list(callee.body), cps[i], depth - 1)
    for n in ast.walk(fn):
        if isinstance(n, ast.DictComp) and len(n.generators) == 1 and isinstance(n.generators[0].target, ast.Name):
            collect([n.value], n.generators[0].target.id, 2)
    for n in ast.walk(fn):
        if isinstance(n, ast.For) and isinstance(n.target, ast.Name):
            collect(list(n.body), n.target.id, 2)
    ctx.floor('install plan entry shapes', len(entries), 2)
    for d, ev in entries:
        ent = dict_entries(d)
        for f in filt:
            val = ent.get(f)
            ok = val is not None and set(attrs_of(val, ev)) == {f}
            ctx.require(ok, f'{qn}: entry of `{ev}` reports "{f}" from {ev}.{f} (the field should_install tests)', mod, qn, val if val is not None else d,
                        f'`meson install --tags/--skip-subprojects` filters on .{f}; the plan entry built from `{ev}` reports {short(val) if val is not None else "nothing"} as "{f}"')
    for kind in ('install_plan', 'installed'):
        f2 = normal_func(mod, intro_func(mod, kind).name)
        v2, _ = _install_source(ctx, f2, f2.name, param(f2, 2, f2.name))
        if v2 is None:
            raise Undecided(f'{f2.name}: install data variable not found')
        got, closed = _iterated_lists(f2, v2, lists)
        for c in REQUIRED_CATEGORIES:
            judge(ctx, c in got, f'intro-{kind}.json covers InstallData.{c}', closed, mod, f2.name, f'{v2}.{c}',
                        f'{f2.name} never iterates {v2}.{c}: installed {c} are missing from intro-{kind}.json', f2)


# ---------------------------------------------------------------------------
# R2c list_installed and the installers derive source and destination from the same fields

COPY_ARGS = {'do_copyfile': (0, 1), 'do_copydir': (1, 2)}


def _elem_fields(fl: Flow, e: ast.AST, ev: str) -> T.Tuple[T.FrozenSet[str], bool]:
    os_ = fl.origins(e)
    fs = frozenset(o.split('.')[-1] for o in os_ if o.startswith(f'attr:{ev}.') and o.count('.') == 1)
    return fs, 'call:os.path.basename' in os_


def r2c(ctx: RuleCtx) -> None:
    mod = ctx.repo.module(MINTRO)
    imod = ctx.repo.module(MINSTALL)
    lists = _install_lists(ctx)
    inst: T.Dict[str, T.Tuple[T.Any, T.Any, str]] = {}
    for name in imod.methods('Installer'):
        m = normal_func(imod, f'Installer.{name}')
        loops = [l for l in walk_no_nested(m) if isinstance(l, ast.For) and isinstance(l.iter, ast.Attribute) and l.iter.attr in lists and isinstance(l.target, ast.Name)]
        if len(loops) != 1:
            continue
        l = loops[0]
        fl = Flow(m, nested=False)
        srcs: T.Set[str] = set()
        dsts: T.Set[str] = set()
        base = False
        n = 0
        for c in walk_no_nested(l):
            if isinstance(c, ast.Call) and recv(c) == 'self' and call_method(c) in COPY_ARGS:
                si, di = COPY_ARGS[call_method(c) or '']
                if len(c.args) <= di:
                    raise Undecided(f'Installer.{name}: {short(c)} passes source/destination by keyword')
                n += 1
                srcs |= _elem_fields(fl, c.args[si], l.target.id)[0]
                f, b = _elem_fields(fl, c.args[di], l.target.id)
                dsts |= f
                base = base or b
        if n:
            inst[l.iter.attr] = (frozenset(srcs), (frozenset(dsts - srcs), base), f'Installer.{name}')
    fn = normal_func(mod, intro_func(mod, 'installed').name)
    qn = fn.name
    var, _ = _install_source(ctx, fn, qn, param(fn, 2, qn))
    fl = Flow(fn)
    n = 0
    for l in walk_no_nested(fn):
        if not (isinstance(l, ast.For) and isinstance(l.iter, ast.Attribute) and l.iter.attr in inst and norm(l.iter.value) == var and isinstance(l.target, ast.Name)):
            continue
        st = [s for s in l.body if isinstance(s, ast.Assign) and isinstance(s.targets[0], ast.Subscript)]
        rest = [s for s in l.body if s not in st and not (isinstance(s, (ast.Assign, ast.AnnAssign)) and isinstance(getattr(s, 'target', None) or s.targets[0], ast.Name))]
        if len(st) != 1 or rest:
            raise Undecided(f'{qn}: loop over {l.iter.attr} is not a single `res[src] = dst` store (plus local assignments)')
        key, val = st[0].targets[0].slice, st[0].value
        ksrc = _elem_fields(fl, key, l.target.id)[0]
        vf, vb = _elem_fields(fl, val, l.target.id)
        want_src, want_dst, who = inst[l.iter.attr]
        n += 1
        ctx.require(ksrc == want_src, f'{qn}: {l.iter.attr}: source from .{"/".join(sorted(want_src))} like {who}', mod, qn, key,
                    f'{l.iter.attr}: intro-installed.json keys come from {sorted(ksrc)} but {who} copies from {sorted(want_src)}', st[0])
        got_dst = (frozenset(vf - ksrc), vb)
        ok = got_dst == want_dst and f'attr:{var}.prefix' in fl.origins(val)
        judge(ctx, ok, f'{qn}: {l.iter.attr}: destination = prefix / .{"/".join(sorted(want_dst[0]))}{" / basename" if want_dst[1] else ""} like {who}', got_dst != want_dst, mod, qn, val,
                    f'{l.iter.attr}: intro-installed.json destination uses fields {sorted(got_dst[0])} (basename appended: {got_dst[1]}); {who} installs to '
                    f'{sorted(want_dst[0])} (basename appended: {want_dst[1]})', st[0])
    ctx.floor('installed categories compared with their installer', n, 5)



# ---------------------------------------------------------------------------
# R5 build-definition files: the build-dir test precedes the source-dir test on every recording path (K7)

def _containment_kind(e: ast.AST, loc: Locals) -> T.Optional[str]:
    """`<dir> in <path>.parents` / `<path>.is_relative_to(<dir>)` -> 'build' | 'src' (dir resolved through single-definition locals)."""
    while isinstance(e, ast.UnaryOp) and isinstance(e.op, ast.Not):
        e = e.operand
    d: T.Optional[ast.AST] = None
    if isinstance(e, ast.Compare) and len(e.ops) == 1 and isinstance(e.ops[0], (ast.In, ast.NotIn)) \
            and isinstance(e.comparators[0], ast.Attribute) and e.comparators[0].attr == 'parents':
        d = e.left
    elif isinstance(e, ast.Call) and call_method(e) == 'is_relative_to' and len(e.args) == 1:
        d = e.args[0]
    mentions = set()
    for n in ast.walk(e):
        if isinstance(n, ast.Name):
            try:
                r = loc.resolve(n)
            except Undecided:
                continue
            for c in ast.walk(r):
                if isinstance(c, ast.Call) and call_method(c) in ('get_build_dir', 'get_source_dir'):
                    mentions.add('build' if call_method(c) == 'get_build_dir' else 'src')
        elif isinstance(n, ast.Call) and call_method(n) in ('get_build_dir', 'get_source_dir'):
            mentions.add('build' if call_method(n) == 'get_build_dir' else 'src')
    if not mentions:
        return None
    if d is None or len(mentions) != 1:
        raise Undecided(f'add_build_def_file: directory test outside the understood idioms: {short(e)}')
    return next(iter(mentions))


def r5(ctx: RuleCtx) -> None:
    imod = ctx.repo.module(INTERP)
    fn = normal_func(imod, 'Interpreter.add_build_def_file')
    qn = 'Interpreter.add_build_def_file'
    p0 = param(fn, 0, qn)
    loc = Locals(fn)
    # the recorded collection is what becomes Build.def_files (R1e ties that to intro-buildsystem_files.json)
    getter = imod.func('Interpreter.get_build_def_files')
    gfl = Flow(getter)
    rets = [r for r in ast.walk(getter) if isinstance(r, ast.Return) and r.value is not None]
    smod = ctx.repo.module(MSETUP)
    gen = smod.cls('MesonApp')
    sets = [n for n in ast.walk(gen) if isinstance(n, ast.Assign) and len(n.targets) == 1 and isinstance(n.targets[0], ast.Attribute) and n.targets[0].attr == 'def_files']
    ok = bool(rets) and all('attr:self.build_def_files' in gfl.origins(r.value) for r in rets) and len(sets) == 1 \
        and isinstance(sets[0].value, ast.Call) and call_method(sets[0].value) == 'get_build_def_files'
    judge(ctx, ok, 'Build.def_files = Interpreter.get_build_def_files() = the collection add_build_def_file records into',
          len(sets) == 1 and bool(rets) and all('attr:self.build_def_files' in gfl.origins(r.value) for r in rets), smod, 'MesonApp',
          sets[0] if sets else 'def_files', f'Build.def_files is set from `{short(sets[0].value) if sets else "?"}`, not from the interpreter\'s build_def_files collection')
    from ..tables import canon
    n_rec = n_checked = 0
    for pth in enumerate_paths(fn.body, handlers=True):
        recs = [i for i, ev in enumerate(pth.events) if ev.kind == 'stmt' and any(recv(c) == 'self.build_def_files' and call_method(c) in ('add', 'update', 'append')
                                                                                 for c in walk_no_nested(ev.node) if isinstance(c, ast.Call))]
        if not recs:
            continue
        n_rec += 1
        kinds: T.List[T.Tuple[int, str, bool]] = []
        is_file: T.Optional[bool] = None
        for i, ev in enumerate(pth.events[:recs[0]]):
            if ev.kind != 'cond':
                continue
            a, v = canon(ev.node, bool(ev.val))
            if a.kind == 'isinstance' and a.args[0] == p0 and any(t.split('.')[-1] == 'File' for t in a.args[1]):
                is_file = v
                continue
            k = _containment_kind(ev.node, loc)
            if k is not None:
                neg = isinstance(ev.node, ast.Compare) and isinstance(ev.node.ops[0], ast.NotIn)
                kinds.append((i, k, bool(ev.val) != neg))
        if is_file is None:
            raise Undecided(f'{qn}: a recording path does not decide isinstance({p0}, File)')
        if is_file:
            continue   # File objects: built files are rejected by their own flag, nothing to order
        n_checked += 1
        b_out = [i for i, k, inside in kinds if k == 'build' and not inside]
        s_any = [i for i, k, inside in kinds if k == 'src']
        what = ' & '.join(('' if v else 'not ') + t for t, v in pth.conds() if 'parents' in t or 'relative_to' in t) or 'no directory test'
        okp = bool(b_out) and (not s_any or b_out[0] < s_any[0])
        first_src = pth.events[s_any[0]].node if s_any else fn
        ctx.require(okp, f'{qn}: recording path [{what}] has ruled out the build directory before looking at the source directory', imod, qn,
                    f'path: {what}', f'a path-like build definition file is recorded on the path [{what}] without first ruling out the build directory: with the '
                    'build directory inside the source tree (`meson setup build`) a generated file is inside both, is relativised to the source dir and listed in '
                    'intro-buildsystem_files.json', first_src)
    ctx.floor('recording paths of add_build_def_file', n_rec, 5)
    ctx.floor('recording paths for path-like files', n_checked, 4)



# ---------------------------------------------------------------------------
# R2d install_subdir: plan destination and install destination append the same source basename on every path

def _join_parts(e: ast.AST) -> T.List[ast.AST]:
    if isinstance(e, ast.Call) and call_method(e) == 'join' and recv(e) in ('os.path', 'posixpath') and not e.keywords:
        out: T.List[ast.AST] = []
        for a in e.args:
            out.extend(_join_parts(a))
        return out
    return [e]


def _dir_accessors(ctx: RuleCtx) -> T.Dict[str, str]:
    """Environment.get_<x>() -> name of the directory option it reads (folded from the OptionKey constant in its body)."""
    cached = getattr(ctx.repo, '_c15_dir_accessors', None)
    if cached is None:
        em = ctx.repo.module('mesonbuild/environment.py')
        cached = {}
        for nm, f in em.methods('Environment').items():
            body = [s_ for s_ in f.body if not (isinstance(s_, ast.Expr) and isinstance(s_.value, ast.Constant))]
            if len(body) == 1 and isinstance(body[0], ast.Return) and body[0].value is not None:
                keys = [c.args[0].value for c in ast.walk(body[0].value) if isinstance(c, ast.Call) and call_method(c) == 'OptionKey' and len(c.args) == 1
                        and isinstance(c.args[0], ast.Constant) and isinstance(c.args[0].value, str)]
                keys += [c.args[0].value for c in ast.walk(body[0].value) if isinstance(c, ast.Call) and call_method(c) in ('get_value_for', 'get_option')
                         and len(c.args) == 1 and isinstance(c.args[0], ast.Constant) and isinstance(c.args[0].value, str)]
                if len(set(keys)) == 1:
                    cached[nm] = keys[0]
        setattr(ctx.repo, '_c15_dir_accessors', cached)
    return cached


def _root_option(ctx: RuleCtx, root: ast.AST, whole: T.Optional[ast.AST]) -> T.Optional[str]:
    """Directory option a path root stands for: `<...>.environment.get_X()` -> option of X; the literal '{name}' -> name;
    `NAME.replace('{name}', <accessor call>)` on the whole expression -> option of the accessor."""
    import re as _re
    if whole is not None and isinstance(whole, ast.Call) and call_method(whole) == 'replace' and len(whole.args) == 2:
        return _root_option(ctx, whole.args[1], None)
    if isinstance(root, ast.Constant) and isinstance(root.value, str):
        m_ = _re.fullmatch(r'\{(\w+)\}', root.value)
        return m_.group(1) if m_ else None
    if isinstance(root, ast.Call) and not root.args and not root.keywords and (recv(root) or '').split('.')[-1] == 'environment':
        return _dir_accessors(ctx).get(call_method(root) or '')
    return None


def _strip_placeholder_replace(e: ast.AST) -> ast.AST:
    """`X.replace('{name}', root)` names the same relative path as X (placeholder substitution only)."""
    while isinstance(e, ast.Call) and call_method(e) == 'replace' and isinstance(e.func, ast.Attribute) and len(e.args) == 2 \
            and isinstance(e.args[0], ast.Constant) and isinstance(e.args[0].value, str) and e.args[0].value.startswith('{') and e.args[0].value.endswith('}'):
        e = e.func.value
    return e


INSTALL_CTORS = ('InstallDataBase', 'SubdirInstallData')


def r2d(ctx: RuleCtx) -> None:
    """Every producer of an InstallDataBase/SubdirInstallData: install_path (minstall, intro-installed) and install_path_name
    (intro-install_plan) are joined from the same per-file components."""
    bmod = ctx.repo.module(BACKENDS)
    sig = [st.target.id for st in bmod.cls('InstallDataBase').body if isinstance(st, ast.AnnAssign) and isinstance(st.target, ast.Name)]
    if sig[:3] != ['path', 'install_path', 'install_path_name'] or params(bmod.func('SubdirInstallData.__init__'))[:3] != sig[:3]:
        raise Undecided(f'InstallDataBase/SubdirInstallData field order changed: {sig[:3]}')
    def _has_ctor(n_: str, f_: FuncNode) -> bool:
        if any(isinstance(c, ast.Call) and call_method(c) in INSTALL_CTORS for c in ast.walk(f_)):
            return True
        # the constructor may sit in a private helper / generator of the class: look at the normal form (helpers read in place)
        if any(isinstance(c, ast.Call) and recv(c) == 'self' and (call_method(c) or '').startswith('_') for c in ast.walk(f_)):
            nf = normal_func(bmod, f'Backend.{n_}', fn=f_)
            return any(isinstance(c, ast.Call) and call_method(c) in INSTALL_CTORS for c in ast.walk(nf))
        return False
    producers = sorted(n for n, f in bmod.methods('Backend').items() if n.startswith('generate_') and n.endswith('_install') and _has_ctor(n, f))
    ctx.floor('producers of InstallDataBase/SubdirInstallData entries', len(producers), 5)
    n_ctor = 0
    roots_all: T.List[T.Tuple[str, str]] = []
    for name in producers:
        bm, qn, fn = _resolved_method(ctx, name)
        fn = normal_func(bm, qn, fn=fn)
        pm = parents(fn)
        # per constructor call: innermost enclosing loop (if nested in another loop) -> per-file variables
        leafvars: T.Dict[int, T.Set[str]] = {}
        for c in ast.walk(fn):
            if isinstance(c, ast.Call) and call_method(c) in INSTALL_CTORS:
                loops_: T.List[ast.For] = []
                node: ast.AST = c
                while node in pm:
                    node = pm[node]
                    if isinstance(node, ast.For):
                        loops_.append(node)
                leafvars[id(c)] = {x.id for x in ast.walk(loops_[0].target) if isinstance(x, ast.Name)} if len(loops_) >= 2 else set()
        results: T.Dict[int, T.List[T.Tuple[bool, str, str]]] = {}
        ctor_node: T.Dict[int, ast.Call] = {}
        roots_seen: T.List[T.Tuple[str, str]] = roots_all
        for pth in enumerate_paths(fn.body):
            env: T.Dict[str, ast.AST] = {}
            for ev in pth.events:
                if ev.kind == 'iter' and isinstance(ev.node, ast.For):
                    for x in ast.walk(ev.node.target):
                        if isinstance(x, ast.Name):
                            env.pop(x.id, None)
                    continue
                if ev.kind == 'with' and ev.node is not None:
                    for it in ev.node.items:  # type: ignore[attr-defined]
                        if it.optional_vars is not None:
                            for x in ast.walk(it.optional_vars):
                                if isinstance(x, ast.Name):
                                    env.pop(x.id, None)
                    continue
                if ev.kind != 'stmt':
                    continue
                st = ev.node
                orig_calls = [c for c in ast.walk(st) if isinstance(c, ast.Call) and call_method(c) in INSTALL_CTORS]
                for oc in orig_calls:
                    c = _Sub(env).visit(copy.deepcopy(oc))
                    args = {sig[i]: a for i, a in enumerate(c.args) if i < len(sig)}
                    args.update({k.arg: k.value for k in c.keywords if k.arg})
                    if 'install_path' not in args or 'install_path_name' not in args:
                        raise Undecided(f'{qn}: constructor call not understood: {short(oc)}')
                    comps = {k: _join_parts(_strip_placeholder_replace(args[k])) for k in ('install_path', 'install_path_name')}
                    base = {k: [norm(x) for x in v if isinstance(x, ast.Call) and call_method(x) == 'basename'] for k, v in comps.items()}
                    lv = leafvars.get(id(oc), set())
                    leaf = {k: [norm(x) for x in v if lv & {y.id for y in ast.walk(x) if isinstance(y, ast.Name)}] for k, v in comps.items()}
                    ok = base['install_path'] == base['install_path_name'] and leaf['install_path'] == leaf['install_path_name']
                    what = ' & '.join(('' if v else 'not ') + t for t, v in pth.conds()) or 'always'
                    detail = (f'install_path is joined from per-file components {leaf["install_path"] + [b for b in base["install_path"] if b not in leaf["install_path"]]}, '
                              f'install_path_name from {leaf["install_path_name"] + [b for b in base["install_path_name"] if b not in leaf["install_path_name"]]}')
                    # beyond the common tail the two paths may differ only in their roots: a component present in both remainders means that one
                    # side had something joined after it that the other side lacks
                    cp, cn = [norm(x) for x in comps['install_path']], [norm(x) for x in comps['install_path_name']]
                    while cp and cn and cp[-1] == cn[-1]:
                        cp.pop()
                        cn.pop()
                    shared = [x for x in cp if x in cn]
                    if ok and shared:
                        ok = False
                        detail = (f'both paths start from `{shared[0]}` but continue differently: install_path with {cp[cp.index(shared[0]) + 1:] or "nothing"}, '
                                  f'install_path_name with {cn[cn.index(shared[0]) + 1:] or "nothing"}')
                    # the placeholder at the root of the name stands for the directory option the real root was read from
                    rp, rn_ = _root_option(ctx, comps['install_path'][0], args['install_path']), _root_option(ctx, comps['install_path_name'][0], None)
                    if rp is not None and rn_ is not None:
                        roots_seen.append((rp, rn_))
                        if ok and rp != rn_:
                            ok = False
                            detail = f'install_path starts at the `{rp}` directory option, install_path_name at the placeholder `{{{rn_}}}`'
                    results.setdefault(id(oc), []).append((ok, what, detail))
                    ctor_node[id(oc)] = oc
                if isinstance(st, (ast.Assign, ast.AnnAssign)) and getattr(st, 'value', None) is not None:
                    val = _Sub(env).visit(copy.deepcopy(st.value))
                    tgs = st.targets if isinstance(st, ast.Assign) else [st.target]
                    for tg in tgs:
                        if isinstance(tg, ast.Name):
                            env[tg.id] = val
                        else:
                            for x in ast.walk(tg):
                                if isinstance(x, ast.Name) and isinstance(x.ctx, ast.Store):
                                    env.pop(x.id, None)
                elif isinstance(st, ast.AugAssign) and isinstance(st.target, ast.Name):
                    env.pop(st.target.id, None)
        for cid, rs in results.items():
            n_ctor += 1
            oc = ctor_node[cid]
            bad = [(w, d) for ok, w, d in rs if not ok]
            if bad:
                for w, d in dict(bad).items():
                    ctx.violation(bm, qn, f'{short(oc, 70)} on path: {w}', f'on the path [{w}] {d}: `meson install`/intro-installed.json (install_path) and '
                                  'intro-install_plan.json (install_path_name) name different files', oc)
            else:
                ctx.ok(f'{qn}: `{short(oc, 60)}`: install_path and install_path_name carry the same per-file components on {len(rs)} path(s)')
    ctx.floor('install entry constructor sites', n_ctor, 6)
    # the same pairing where an install directory and its placeholder name are created together: OptionString(<real>, <name>)
    n_os = 0
    for rel in ('mesonbuild/modules/pkgconfig.py', INTERP, 'mesonbuild/modules/python.py', 'mesonbuild/modules/i18n.py'):
        om = ctx.repo.module(rel)
        for q, f in om.funcs().items():
            if q.count('.') > 1:
                continue
            sites = [c for c in walk_no_nested(f) if isinstance(c, ast.Call) and call_method(c) == 'OptionString' and len(c.args) == 2 and not c.keywords]
            if not sites:
                continue
            floc = Locals(f)
            for c in sites:
                try:
                    real, name_ = _inline(floc, c.args[0]), _inline(floc, c.args[1])
                except Undecided:
                    continue
                pr, pn = _join_parts(real), _join_parts(name_)
                rp, rn_ = _root_option(ctx, pr[0], real), _root_option(ctx, pn[0], None)
                if rp is None or rn_ is None:
                    continue          # roots that are not a directory accessor / a literal placeholder: nothing to compare
                n_os += 1
                tails_ok = [norm(x) for x in pr[1:]] == [norm(x) for x in pn[1:]]
                ctx.require(rp == rn_ and tails_ok, f'{q}: OptionString pairs the `{rp}` directory with its placeholder `{{{rn_}}}` and the same tail', om, q, c,
                            f'`{short(c, 150)}` pairs a real path below the `{rp}` directory option (tail {[norm(x) for x in pr[1:]]}) with the name '
                            f'`{{{rn_}}}` (tail {[norm(x) for x in pn[1:]]}): intro-install_plan.json announces another directory than the one `meson install` writes to', c)
    ctx.floor('install roots compared with their placeholder', len(roots_all) + n_os, 5)



# ---------------------------------------------------------------------------
# R1f the source lists recorded for introspection are the lists handed to the compile statement (writer/consumer agreement)

ELEMENT_FEEDERS = {'add_dep', 'add_orderdep'}
FILL = {'append', 'extend', 'add', 'insert'}


def _element_factory(ctx: RuleCtx, meth: str, depth: int = 2) -> bool:
    """self.<meth>(...) is a statement factory: every value it returns is a NinjaBuildElement it constructed (directly, through a
    local bound only to such constructions, or through another factory of the class)."""
    memo = ctx.repo.__dict__.setdefault('_c15_factories', {})
    if meth in memo:
        return memo[meth]
    memo[meth] = False
    try:
        _, _, fn = _resolved_method(ctx, meth)
    except Undecided:
        return False
    loc = Locals(fn)

    def is_elem(e: T.Optional[ast.AST], seen: int = 0) -> bool:
        if isinstance(e, ast.Call):
            if call_method(e) == 'NinjaBuildElement':
                return True
            return recv(e) == 'self' and depth > 0 and bool(call_method(e)) and _element_factory(ctx, call_method(e) or '', depth - 1)
        if isinstance(e, ast.Name) and seen < 3:
            ds = loc.defs.get(e.id, [])
            return bool(ds) and e.id not in params(fn) and all(is_elem(d, seen + 1) for d in ds)
        return False
    rets = [r for r in walk_no_nested(fn) if isinstance(r, ast.Return)]
    memo[meth] = bool(rets) and all(is_elem(r.value) for r in rets)
    return memo[meth]


def _builds_element_from(ctx: RuleCtx, meth: str, index: T.Union[int, str], depth: int = 3) -> bool:
    """self.<meth>(...) hands its index-th positional (or named) argument to a NinjaBuildElement (through statement factories too)."""
    try:
        _, _, fn = _resolved_method(ctx, meth)
    except Undecided:
        return False
    ps = params(fn) + [a.arg for a in fn.args.kwonlyargs]
    if isinstance(index, int):
        if index >= len(params(fn)):
            return False
        index = ps[index]
    if index not in ps:
        return False
    fl = Flow(fn, nested=False)
    want = f'param:{index}'
    for c in walk_no_nested(fn):
        if not isinstance(c, ast.Call):
            continue
        m = call_method(c)
        if m == 'NinjaBuildElement' or m in ELEMENT_FEEDERS:
            if any(want in fl.origins(a) for a in c.args) or any(want in fl.origins(k.value) for k in c.keywords):
                return True
        elif recv(c) == 'self' and m and m != meth and depth > 0 and _element_factory(ctx, m):
            if any(want in fl.origins(a) and _builds_element_from(ctx, m, i, depth - 1) for i, a in enumerate(c.args)) \
                    or any(k.arg and want in fl.origins(k.value) and _builds_element_from(ctx, m, k.arg, depth - 1) for k in c.keywords):
                return True
    return False


def _consumed_names(ctx: RuleCtx, fn: FuncNode, loc: Locals) -> T.Tuple[T.Set[str], T.Set[str]]:
    """Local names that occur in the arguments of (a) a compile-statement constructor / element-building helper, (b) a dependency feeder.
    Names bound to a plain combination of other lists (`inputs = a + b`, `[*a, *b]`) stand for their parts as well."""
    inputs: T.Set[str] = set()
    deps: T.Set[str] = set()
    for c in walk_no_nested(fn):
        if not isinstance(c, ast.Call):
            continue
        m = call_method(c)
        if m == 'NinjaBuildElement':
            for a in c.args:
                inputs |= {n.id for n in ast.walk(a) if isinstance(n, ast.Name)}
        elif m in ELEMENT_FEEDERS:
            for a in c.args:
                deps |= {n.id for n in ast.walk(a) if isinstance(n, ast.Name)}
        elif recv(c) == 'self' and m and (m.startswith('generate_') or _element_factory(ctx, m)):
            # an element-building helper / a statement factory of the class: the arguments it hands to the constructor are consumed
            for i, a in enumerate(c.args):
                if _builds_element_from(ctx, m, i):
                    inputs |= {n.id for n in ast.walk(a) if isinstance(n, ast.Name)}
            for k in c.keywords:
                if k.arg and _element_factory(ctx, m) and _builds_element_from(ctx, m, k.arg):
                    inputs |= {n.id for n in ast.walk(k.value) if isinstance(n, ast.Name)}
    for grp in (inputs, deps):
        for _ in range(3):
            for nm in list(grp):
                for d in loc.defs.get(nm, []):
                    if d is not None and all(isinstance(x, (ast.Name, ast.BinOp, ast.Add, ast.List, ast.Tuple, ast.Starred, ast.Load)) for x in ast.walk(d)):
                        grp |= {x.id for x in ast.walk(d) if isinstance(x, ast.Name)}
    return inputs, deps


def _fill_sites(fn: FuncNode, pm: T.Dict[ast.AST, ast.AST], name: str) -> T.List[T.Tuple[ast.Call, ast.AST]]:
    """(call, enclosing statement) of every `name.append/extend/...(...)`."""
    out = []
    for c in walk_no_nested(fn):
        if isinstance(c, ast.Call) and isinstance(c.func, ast.Attribute) and c.func.attr in FILL and isinstance(c.func.value, ast.Name) and c.func.value.id == name:
            st: ast.AST = c
            while st in pm and not isinstance(st, ast.stmt):
                st = pm[st]
            out.append((c, st))
    return out


def _relation(fn: FuncNode, pm: T.Dict[ast.AST, ast.AST], recorded: str, consumed: T.Set[str], loc: Locals) -> T.Tuple[str, str]:
    """How the recorded list relates to a consumed one: same | co-filled | transformed | filtered | unknown."""
    if recorded in consumed:
        return 'same', recorded
    # a single item handed in as a parameter and turned into the statement's input (relative path of the same file)
    if recorded in params(fn):
        fl = Flow(fn, nested=False)
        for cname in sorted(consumed):
            if f'param:{recorded}' in fl.origins(ast.Name(id=cname, ctx=ast.Load())):
                return 'item', cname
    # co-filled: every fill of `recorded` sits in a block that also fills one consumed list
    fills = _fill_sites(fn, pm, recorded)
    if fills:
        for cname in sorted(consumed):
            cf = _fill_sites(fn, pm, cname)
            if cf and all(any(pm.get(st) is pm.get(st2) and _same_field(pm, st, st2) for _, st2 in cf) for _, st in fills) and len(cf) == len(fills):
                return 'co-filled', cname
    # a consumed list derived from `recorded` element by element, with or without a filter
    for cname in sorted(consumed):
        for d in loc.defs.get(cname, []):
            if isinstance(d, (ast.ListComp, ast.GeneratorExp, ast.SetComp)) and len(d.generators) == 1 and isinstance(d.generators[0].iter, ast.Name) \
                    and d.generators[0].iter.id == recorded:
                return ('filtered' if d.generators[0].ifs else 'transformed'), cname
        for c, st in _fill_sites(fn, pm, cname):
            node: ast.AST = st
            guarded = False
            while node in pm:
                par = pm[node]
                if isinstance(par, ast.If):
                    guarded = True
                if isinstance(par, ast.For) and isinstance(par.iter, ast.Name) and par.iter.id == recorded:
                    return ('filtered' if guarded else 'transformed'), cname
                node = par
    return 'unknown', ''


def _same_field(pm: T.Dict[ast.AST, ast.AST], a: ast.AST, b: ast.AST) -> bool:
    par = pm.get(a)
    if par is None:
        return False
    for f in ('body', 'orelse', 'finalbody'):
        blk = getattr(par, f, None)
        if isinstance(blk, list) and a in blk:
            return b in blk
    return False


def r1f(ctx: RuleCtx) -> None:
    nmod = ctx.repo.module(NINJA)
    sig = params(nmod.func('NinjaBackend.create_target_source_introspection'))
    n = 0
    for name, m in sorted(nmod.methods('NinjaBackend').items()):
        sites = method_calls(m, 'create_target_source_introspection', nested=False)
        if not sites:
            continue
        qn = f'NinjaBackend.{name}'
        m = normal_func(nmod, qn, inline=0)
        sites = method_calls(m, 'create_target_source_introspection', nested=False)
        pm = parents(m)
        loc = Locals(m)
        inputs, deps = _consumed_names(ctx, m, loc)
        for c in sites:
            args = {sig[i]: a for i, a in enumerate(c.args) if i < len(sig)}
            args.update({k.arg: k.value for k in c.keywords if k.arg})
            for role in ('sources', 'generated_sources'):
                if role not in args:
                    raise Undecided(f'{qn}: {short(c)} does not pass {role}')
                e = args[role]
                if isinstance(e, (ast.List, ast.Tuple)) and not e.elts:
                    continue
                leaves = [x.id for x in ast.walk(e) if isinstance(x, ast.Name)]
                for _ in range(2):      # a local that is a list display in every branch stands for the names inside it
                    nl: T.List[str] = []
                    for lf in leaves:
                        ds = loc.defs.get(lf, [])
                        if lf not in params(m) and ds and all(isinstance(d, (ast.List, ast.Tuple)) and all(isinstance(x, ast.Name) for x in d.elts) for d in ds):
                            nl += [x.id for d in ds for x in d.elts]  # type: ignore[union-attr]
                        else:
                            nl.append(lf)
                    leaves = list(dict.fromkeys(nl))
                if not leaves:
                    continue
                if not leaves or any(isinstance(x, ast.Call) for x in ast.walk(e)):
                    raise Undecided(f'{qn}: recorded {role} `{short(e)}` is not a plain list of locals')
                for lf in leaves:
                    n += 1
                    # the statement's inputs decide; its dependency lists only count when the value is not related to any input list
                    rel, other = _relation(m, pm, lf, inputs, loc)
                    if rel == 'unknown':
                        rel, other = _relation(m, pm, lf, deps, loc)
                    if rel == 'unknown':
                        raise Undecided(f'{qn}: cannot relate the recorded {role} `{lf}` to what the compile statement of this function consumes')
                    ctx.require(rel != 'filtered', f'{qn}: recorded {role} `{lf}` is what the compile statement consumes ({rel}{" with " + other if other != lf else ""})',
                                nmod, qn, f'{role}={lf}', f'target_sources records `{lf}` as {role}, but the compile statement only receives `{other}`, the subset of it '
                                f'that passes a filter: intro-targets.json lists files the compiler never sees', c)
    ctx.floor('recorded source lists outside generate_single_compile', n, 7)


# ---------------------------------------------------------------------------
# R1g create_test_serialisation runs twice (pickle, introspection): it must not mutate the model it reads (K2, may-alias)

CONTAINER_MUTATORS = {'append', 'extend', 'insert', 'add', 'update', 'setdefault', 'pop', 'remove', 'clear', 'discard', 'sort', 'reverse', 'popitem', 'appendleft'}
FRESH_CTORS = {'list', 'set', 'dict', 'tuple', 'frozenset', 'sorted', 'OrderedSet', 'OrderedDict', 'defaultdict', 'deque'}


def _method_effect(ctx: RuleCtx, cmod: Module, cls: ast.ClassDef, meth: str, depth: int = 2) -> str:
    """'pure' | 'shallow' (rebinds self.<attr> only) | 'deep' (mutates a container held by self) | 'unknown'."""
    r = ctx.repo.find_method(cmod, cls, meth)
    if r is None:
        return 'unknown'
    _, _, fn = r
    eff = 'pure'
    for n in walk_no_nested(fn):
        tg: T.List[ast.AST] = []
        if isinstance(n, ast.Assign):
            tg = list(n.targets)
        elif isinstance(n, (ast.AugAssign, ast.AnnAssign)):
            tg = [n.target]
        elif isinstance(n, ast.Delete):
            tg = list(n.targets)
        for t in tg:
            if isinstance(t, ast.Attribute) and attr_chain(t) == f'self.{t.attr}':
                eff = 'shallow' if eff == 'pure' else eff
            elif isinstance(t, ast.Subscript) and (attr_chain(t.value) or '').startswith('self.'):
                return 'deep'
        if isinstance(n, ast.Call) and isinstance(n.func, ast.Attribute):
            rc = attr_chain(n.func.value) or ''
            if rc.startswith('self.') and n.func.attr in CONTAINER_MUTATORS:
                return 'deep'
            if rc == 'self' and depth > 0:
                sub = _method_effect(ctx, cmod, cls, n.func.attr, depth - 1)
                if sub in ('deep', 'unknown'):
                    return sub if sub == 'deep' else eff
                if sub == 'shallow' and eff == 'pure':
                    eff = 'shallow'
    return eff


def r1g(ctx: RuleCtx) -> None:
    bm, qn, fn = _resolved_method(ctx, 'create_test_serialisation')
    fn = normal_func(bm, qn, fn=fn)
    p0 = param(fn, 0, qn)
    loc = Locals(fn)

    def over_tests(e: ast.AST) -> bool:
        try:
            e = loc.resolve(e)
        except Undecided:
            return False
        return p0 in {x.id for x in ast.walk(e) if isinstance(x, ast.Name)}
    loops = [l for l in fn.body if isinstance(l, ast.For) and isinstance(l.target, ast.Name) and over_tests(l.iter)]
    if len(loops) != 1:
        raise Undecided(f'{qn}: loop over the tests not found')
    tv = loops[0].target.id
    # field types of the serialisation object: locals handed to TestSerialisation(...) have the annotated type of that field
    tsc = bm.cls('TestSerialisation')
    fields = [(st.target.id, st.annotation) for st in tsc.body if isinstance(st, ast.AnnAssign) and isinstance(st.target, ast.Name)]
    ctor = [c for c in ast.walk(loops[0]) if isinstance(c, ast.Call) and call_method(c) == 'TestSerialisation']
    if len(ctor) != 1:
        raise Undecided(f'{qn}: TestSerialisation(...) construction not found')
    local_type: T.Dict[str, ast.AST] = {}
    for i, a in enumerate(ctor[0].args):
        if isinstance(a, ast.Name) and i < len(fields):
            local_type[a.id] = fields[i][1]
    for k in ctor[0].keywords:
        if isinstance(k.value, ast.Name) and k.arg in dict(fields):
            local_type[k.value.id] = dict(fields)[k.arg]

    def model_rooted(e: ast.AST) -> bool:
        c = attr_chain(e)
        return c is not None and c.split('.')[0] in (tv, p0) and '.' in c

    def origin(name: str, seen: T.Set[str]) -> T.List[T.Tuple[str, ast.AST]]:
        """Kinds of value a local may hold: fresh | deep | shallow-copy-of-model | alias | param | unknown."""
        if name in seen:
            return []
        seen = seen | {name}
        out: T.List[T.Tuple[str, ast.AST]] = []
        for d in loc.defs.get(name, []):
            if d is None:
                out.append(('unknown', ast.Name(id=name, ctx=ast.Load())))
                continue
            e = d
            while isinstance(e, ast.Attribute):
                e = e.value
            if isinstance(d, (ast.List, ast.Set, ast.Dict, ast.ListComp, ast.SetComp, ast.DictComp, ast.Tuple, ast.Constant, ast.JoinedStr, ast.BinOp)):
                out.append(('fresh', d))
            elif isinstance(e, ast.Call) and call_name(e) in ('copy.deepcopy', 'deepcopy'):
                out.append(('deep', d))
            elif isinstance(d, ast.Call) and (call_name(d) in ('copy.copy', 'copy') or (call_method(d) == 'copy' and not d.args)):
                src = d.args[0] if d.args else d.func.value  # type: ignore[attr-defined]
                if model_rooted(src):
                    out.append(('shallow', d))
                elif isinstance(src, ast.Name):
                    sub = origin(src.id, seen)
                    out.extend((('shallow' if k in ('alias', 'shallow') else k), d) for k, _ in sub) if sub else out.append(('unknown', d))
                else:
                    out.append(('unknown', d))
            elif isinstance(d, ast.Call) and isinstance(d.func, ast.Name) and (d.func.id in FRESH_CTORS or d.func.id[:1].isupper()):
                out.append(('fresh', d))
            elif model_rooted(d):
                out.append(('alias', d))
            elif isinstance(d, ast.Name):
                out.extend(origin(d.id, seen) or [('unknown', d)])
            else:
                out.append(('unknown', d))
        return out

    n = 0
    for c in ast.walk(loops[0]):
        if isinstance(c, ast.AugAssign) and isinstance(c.target, ast.Name) and c.target.id in loc.aug:
            c = ast.copy_location(ast.Call(func=ast.Attribute(value=ast.Name(id=c.target.id, ctx=ast.Load()), attr='extend', ctx=ast.Load()), args=[c.value], keywords=[]), c)
            ast.fix_missing_locations(c)
        if not (isinstance(c, ast.Call) and isinstance(c.func, ast.Attribute)):
            continue
        rcv = c.func.value
        meth = c.func.attr
        # mutation through an expression rooted at the model itself
        if model_rooted(rcv) and meth in CONTAINER_MUTATORS:
            n += 1
            ctx.violation(bm, qn, c, f'`{short(c)}` mutates {attr_chain(rcv)} of the Test object in place: the second serialisation (intro-tests.json) differs from '
                          'the first (meson_test_setup.dat)', c)
            continue
        if not isinstance(rcv, ast.Name) or rcv.id in (tv, p0) or rcv.id not in loc.defs:
            continue
        # does the method mutate its receiver?
        effect = 'deep-or-top' if meth in CONTAINER_MUTATORS else None
        cls_txt = None
        if rcv.id in local_type:
            cls_txt = attr_chain(local_type[rcv.id])
            rc = ctx.repo.resolve_class(bm, cls_txt) if cls_txt else None
            if rc is not None:
                effect = _method_effect(ctx, rc[0], rc[1], meth)
                if effect == 'pure':
                    continue
        if effect is None:
            continue   # not a known mutator name and no repository class to look into
        kinds = origin(rcv.id, set())
        n += 1
        desc = f'`{short(c, 70)}`'
        if any(k == 'unknown' for k, _ in kinds) or effect == 'unknown':
            raise Undecided(f'{qn}: {desc} mutates `{rcv.id}` whose origin/effect is not understood')
        # a shallow copy protects against top-level container mutation only, not against methods writing into containers held by the object
        bad = [k for k, _ in kinds if k == 'alias' or (k == 'shallow' and effect == 'deep')]
        ctx.require(not bad, f'{qn}: {desc} works on a private value ({", ".join(sorted({k for k, _ in kinds}))}; effect {effect})', bm, qn, c,
                    f'{desc} mutates state shared with the Test object (`{rcv.id}` is {"/".join(sorted({"an alias" if b == "alias" else "a shallow copy" for b in bad}))}: {short(kinds[0][1], 50)}'
                    f'{"; " + meth + "() of " + cls_txt + " writes into containers held by the object, which a shallow copy shares" if "shallow" in bad else ""}): '
                    'create_test_serialisation runs once for meson_test_setup.dat and again for intro-tests.json, so the second result differs from the first', c)
    ctx.floor('mutating calls on locals of create_test_serialisation', n, 6)


# ---------------------------------------------------------------------------
# R2e the targets recorded as a test's `depends` are targets the test prerequisite statement builds (sibling agreement, K8)

TEST_SOURCES = {'exe': ('exe', 'get_exe'), 'cmd_args': ('cmd_args',), 'depends': ('depends',)}


_R2E_LOC: T.List[Locals] = []      # locals of the function being read (class tuples bound to a name are looked up there)


def _isinstance_on(t: ast.AST, var: str) -> T.Optional[T.Set[str]]:
    if isinstance(t, ast.Call) and isinstance(t.func, ast.Name) and t.func.id == 'isinstance' and len(t.args) == 2 \
            and isinstance(t.args[0], ast.Name) and t.args[0].id == var:
        k = t.args[1]
        if isinstance(k, ast.Name) and _R2E_LOC:
            ds = _R2E_LOC[-1].defs.get(k.id, [])
            if len(ds) == 1 and isinstance(ds[0], ast.Tuple):
                k = ds[0]
        names = {(attr_chain(x) or '?').split('.')[-1] for x in (k.elts if isinstance(k, ast.Tuple) else [k])}
        if isinstance(k, ast.Name):
            return None
        return None if '?' in names else names
    return None


def _classes_accepted(pm: T.Dict[ast.AST, ast.AST], node: ast.AST, var: str, stop: ast.AST, loc: T.Optional[Locals] = None) -> T.Optional[T.FrozenSet[str]]:
    """Target classes of `var` under which `node` executes: intersection of the isinstance class lists that guard it positively;
    frozenset({'*'}) when no condition on var restricts it (or it sits in the negative branch of such tests); None when a guard that
    mentions the variable (directly or through a named condition) is not understood."""
    acc: T.Optional[T.Set[str]] = None
    cur: ast.AST = node
    while cur in pm and cur is not stop:
        par = pm[cur]
        if isinstance(par, (ast.If, ast.IfExp, ast.While)) and (cur in getattr(par, 'body', []) or cur in getattr(par, 'orelse', []) or cur is getattr(par, 'body', None) or cur is getattr(par, 'orelse', None)):
            t = par.test
            in_body = cur in par.body if isinstance(par.body, list) else cur is par.body
            neg = False
            for _ in range(4):
                while isinstance(t, ast.UnaryOp) and isinstance(t.op, ast.Not):
                    t, neg = t.operand, not neg
                if isinstance(t, ast.Name) and loc is not None and t.id not in params(loc.fn):
                    ds = loc.defs.get(t.id, [])
                    if len(ds) == 1 and ds[0] is not None:
                        t = ds[0]           # a condition bound to a local first
                        continue
                break
            inside = in_body != neg
            conj = t.values if isinstance(t, ast.BoolOp) and isinstance(t.op, ast.And) else [t]
            disj = t.values if isinstance(t, ast.BoolOp) and isinstance(t.op, ast.Or) else None
            mentions = any(isinstance(x, ast.Name) and x.id == var for x in ast.walk(t))
            if (isinstance(t, ast.Compare) and len(t.ops) == 1 and isinstance(t.ops[0], (ast.Is, ast.IsNot)) and isinstance(t.left, ast.Name) and t.left.id == var
                    and isinstance(t.comparators[0], ast.Constant) and t.comparators[0].value is None) or (isinstance(t, ast.Name) and t.id == var):
                cur = par
                continue
            if disj is not None and mentions:
                sets = [_isinstance_on(x, var) for x in disj]
                if any(s_ is None for s_ in sets):
                    return None
                if inside:
                    u: T.Set[str] = set().union(*sets)  # type: ignore[arg-type]
                    acc = u if acc is None else (acc & u)
            elif mentions:
                if not inside and len(conj) > 1:
                    return None          # the negative branch of a conjunction says nothing simple about the variable
                for x in conj:
                    if not any(isinstance(y, ast.Name) and y.id == var for y in ast.walk(x)):
                        continue
                    names = _isinstance_on(x, var)
                    if names is None:
                        return None
                    if inside:
                        acc = names if acc is None else (acc & names)
            elif isinstance(t, ast.Name):
                return None              # an opaque flag decides: cannot tell what it says about the variable
        cur = par
    return frozenset(acc) if acc is not None else frozenset({'*'})


_FISSION_UNWRAPS: T.Dict[T.Tuple[int, str], T.Tuple[T.Tuple[str, str], ...]] = {}   # (function, loop variable) -> unwrappings done while the list was built


def _attr_role(e: ast.AST, tv: str) -> T.Optional[str]:
    if isinstance(e, ast.Call) and not e.args and isinstance(e.func, ast.Attribute):
        e = e.func
    c = attr_chain(e)
    if c and c.split('.')[0] == tv and c.count('.') == 1:
        for role, attrs in TEST_SOURCES.items():
            if c.split('.')[1] in attrs:
                return role
    return None


def _role_of(fn: FuncNode, pm: T.Dict[ast.AST, ast.AST], loc: Locals, tv: str, name: str, node: ast.AST) -> T.Optional[str]:
    """Which part(s) of the test object `tv` the local `name` holds at `node`: exe | cmd_args | depends ('+'-joined when a loop chains several)."""
    cur: ast.AST = node
    while cur in pm:
        par = pm[cur]
        if isinstance(par, (ast.For, ast.comprehension)) and isinstance(par.target, ast.Name) and par.target.id == name:
            it = par.iter
            if isinstance(it, ast.Call) and call_method(it) in ('chain',) and not it.keywords:
                rs = []
                for a in it.args:
                    if isinstance(a, (ast.List, ast.Tuple)) and len(a.elts) == 1:
                        r_ = _attr_role(a.elts[0], tv)
                        r_ = 'exe' if r_ == 'exe' else None
                    else:
                        r_ = _attr_role(a, tv)
                        r_ = r_ if r_ in ('cmd_args', 'depends') else None
                    if r_ is None:
                        return None
                    rs.append(r_)
                return '+'.join(rs)
            r = _attr_role(it, tv)
            if r is None and isinstance(it, ast.Name):
                # loop fission: the list iterated here was filled element by element from a part of the test in an earlier loop
                fills = [c for c in ast.walk(fn) if isinstance(c, ast.Call) and call_method(c) == 'append' and recv(c) == it.id and len(c.args) == 1]
                other = [c for c in ast.walk(fn) if isinstance(c, ast.Call) and recv(c) == it.id and call_method(c) in ('extend', 'insert', 'remove', 'pop', 'sort', 'reverse', 'clear')]
                inits = [d for d in loc.defs.get(it.id, []) if d is not None]
                if fills and not other and len(inits) == 1 and isinstance(inits[0], ast.List) and not inits[0].elts:
                    floops = {id(x): x for f_ in fills for x in _enclosing(pm, f_)[:8] if isinstance(x, ast.For) and isinstance(x.target, ast.Name)
                              and _attr_role(x.iter, tv) in ('cmd_args', 'depends')}
                    if len(floops) == 1:
                        fl_loop = next(iter(floops.values()))
                        src_role = _attr_role(fl_loop.iter, tv)
                        x_ = fl_loop.target.id  # type: ignore[union-attr]
                        unw: T.List[T.Tuple[str, str]] = []
                        okf = True
                        for f_ in fills:
                            e_ = f_.args[0]
                            sites: T.List[T.Tuple[ast.AST, ast.AST]] = [(f_, e_)]
                            if isinstance(e_, ast.Name) and e_.id != x_:
                                sites = [(st_, st_.value) for st_ in ast.walk(fl_loop) if isinstance(st_, ast.Assign) and len(st_.targets) == 1
                                         and isinstance(st_.targets[0], ast.Name) and st_.targets[0].id == e_.id]
                                okf = okf and bool(sites) and _classes_accepted(pm, f_, x_, fl_loop, loc) == frozenset({'*'})
                            for site, v_ in sites:
                                g_ = _classes_accepted(pm, site, x_, fl_loop, loc)
                                if isinstance(v_, ast.Name) and v_.id == x_:
                                    okf = okf and g_ == frozenset({'*'})        # every other element is kept as it is
                                elif isinstance(v_, ast.Attribute) and isinstance(v_.value, ast.Name) and v_.value.id == x_ and g_ is not None and '*' not in g_:
                                    unw += [(v_.attr, k_) for k_ in sorted(g_)]
                                else:
                                    okf = False
                        if okf:
                            _FISSION_UNWRAPS[(id(fn), name)] = tuple(unw)
                            return src_role
                return None
            return r if r in ('cmd_args', 'depends') else None
        cur = par
    for d in loc.defs.get(name, []):
        if d is None:
            continue
        e = d
        if isinstance(e, ast.Call) and not e.args and isinstance(e.func, ast.Attribute):
            e = e.func
        c = attr_chain(e)
        if c and c.split('.')[0] == tv and c.count('.') == 1 and c.split('.')[1] in TEST_SOURCES['exe']:
            return 'exe'
    return None


def _target_classes(fn: FuncNode, tv_loop: ast.For, sinks: T.List[T.Tuple[ast.AST, ast.AST]], qn: str) -> T.Dict[str, T.Set[str]]:
    """role -> classes of targets that reach a sink (`yield x` / `depends.add(x)`); `x.target` of an index counts as its class."""
    pm = parents(fn)
    loc = Locals(fn)
    tv = tv_loop.target.id  # type: ignore[attr-defined]
    out: T.Dict[str, T.Set[str]] = {}
    _R2E_LOC.append(loc)
    work: T.List[T.Tuple[ast.AST, ast.AST, T.Optional[T.FrozenSet[str]], int, T.Tuple[T.Tuple[str, str], ...]]] = [(s_, v_, None, 0, ()) for s_, v_ in sinks]
    expanded: T.List[T.Tuple[ast.AST, ast.AST]] = []
    while work:
        sink, val, outer, depth_, unwraps = work.pop()
        base = val
        while isinstance(base, ast.Attribute):
            base = base.value
        if not isinstance(base, ast.Name):
            _R2E_LOC.pop()
            raise Undecided(f'{qn}: value reaching the sink is not a local: {short(val)}')
        role = _role_of(fn, pm, loc, tv, base.id, sink)
        cls = _classes_accepted(pm, sink, base.id, tv_loop, loc)
        if cls is None:
            _R2E_LOC.pop()
            raise Undecided(f'{qn}: guard of `{short(sink)}` not understood')
        if outer is not None and '*' not in outer:
            # the classes tested on the alias further down restrict the value; an isinstance test on the source that guards an
            # attribute access (`b = c.attr` under isinstance(c, K)) then is an unwrapping, reported as its own role
            if isinstance(val, ast.Attribute) and '*' not in cls:
                role_suffix = ''.join(f' (the .{val.attr} of a {k})' for k in sorted(cls)[:1])
                cls = outer
            else:
                role_suffix = ''
                cls = outer if '*' in cls else frozenset(cls & outer)
        else:
            role_suffix = ''
        if role is None:
            # an alias: `b = c`, `b = c.attr`, `b = None` in the branches above the sink
            adefs = [st_ for st_ in ast.walk(tv_loop) if isinstance(st_, (ast.Assign, ast.AnnAssign)) and getattr(st_, 'value', None) is not None
                     and isinstance(st_.targets[0] if isinstance(st_, ast.Assign) else st_.target, ast.Name)
                     and (st_.targets[0] if isinstance(st_, ast.Assign) else st_.target).id == base.id]  # type: ignore[union-attr]
            if not adefs or depth_ >= 4:
                _R2E_LOC.pop()
                raise Undecided(f'{qn}: cannot tell which part of the test `{base.id}` comes from at `{short(sink)}`')
            # self-unwrapping re-definitions of the alias (`c = c.attr` under isinstance(c, K)) travel with it to the place where the role is known
            for st_ in adefs:
                v2 = st_.value
                if isinstance(v2, ast.Attribute) and isinstance(v2.value, ast.Name) and v2.value.id == base.id:
                    g_ = _classes_accepted(pm, st_, base.id, tv_loop, loc)
                    if g_ is None or '*' in g_:
                        _R2E_LOC.pop()
                        raise Undecided(f'{qn}: unwrapping `{short(st_)}` is not guarded by an isinstance test on `{base.id}`')
                    unwraps = unwraps + tuple((v2.attr, k_) for k_ in sorted(g_))
            for st_ in adefs:
                v2 = st_.value
                if isinstance(v2, ast.Constant) and v2.value is None:
                    continue
                if isinstance(v2, ast.Attribute) and isinstance(v2.value, ast.Name) and v2.value.id == base.id:
                    continue
                b2 = v2
                while isinstance(b2, ast.Attribute):
                    b2 = b2.value
                if isinstance(v2, ast.Call) and not v2.args and isinstance(v2.func, ast.Attribute) and _attr_role(v2, tv):
                    expanded.append((st_, v2))
                    out.setdefault(_attr_role(v2, tv) or '?', set()).update(cls if outer is None else (outer if '*' in cls else cls))
                    continue
                if not isinstance(b2, ast.Name) or b2.id == base.id:
                    _R2E_LOC.pop()
                    raise Undecided(f'{qn}: `{short(st_)}` is not a plain alias')
                work.append((st_, v2, cls if outer is None else (outer if '*' in cls else frozenset(cls)), depth_ + 1, unwraps))
            continue
        unwraps = unwraps + _FISSION_UNWRAPS.get((id(fn), base.id), ())
        for r1 in role.split('+'):
            out.setdefault(r1 + role_suffix, set()).update(cls)
            for attr_, k_ in unwraps:
                out.setdefault(f'{r1} (the .{attr_} of a {k_})', set()).update(cls)
        # unwrapping re-definitions of the same local: `if isinstance(v, K): v = v.attr` makes the value behind a K a candidate too
        for d in ast.walk(tv_loop):
            if isinstance(d, ast.Assign) and len(d.targets) == 1 and isinstance(d.targets[0], ast.Name) and d.targets[0].id == base.id \
                    and isinstance(d.value, ast.Attribute) and isinstance(d.value.value, ast.Name) and d.value.value.id == base.id \
                    and (d.lineno, d.col_offset) < (getattr(sink, 'lineno', 0), getattr(sink, 'col_offset', 0)):
                g = _classes_accepted(pm, d, base.id, tv_loop, loc)
                if g is None or '*' in g:
                    raise Undecided(f'{qn}: unwrapping `{short(d)}` is not guarded by an isinstance test on `{base.id}`')
                for k in sorted(g):
                    for r1 in role.split('+'):
                        out.setdefault(f'{r1} (the .{d.value.attr} of a {k})', set()).update(cls)
    _R2E_LOC.pop()
    return out


def r2e(ctx: RuleCtx) -> None:
    bm, qn, fn = _resolved_method(ctx, 'create_test_serialisation')
    fn = normal_func(bm, qn, fn=fn)
    p0 = param(fn, 0, qn)
    loc = Locals(fn)
    loops = [l for l in fn.body if isinstance(l, ast.For) and isinstance(l.target, ast.Name) and p0 in {x.id for x in ast.walk(_inline(loc, l.iter)) if isinstance(x, ast.Name)}]
    if len(loops) != 1:
        raise Undecided(f'{qn}: loop over the tests not found')
    tv = loops[0].target.id
    # the local that becomes TestSerialisation.depends
    tsc = bm.cls('TestSerialisation')
    fields = [st.target.id for st in tsc.body if isinstance(st, ast.AnnAssign) and isinstance(st.target, ast.Name)]
    ctor = [c for c in ast.walk(loops[0]) if isinstance(c, ast.Call) and call_method(c) == 'TestSerialisation']
    if len(ctor) != 1:
        raise Undecided(f'{qn}: TestSerialisation(...) construction not found')
    dep_arg = bind_args(ctor[0], None, fields).get('depends')
    dep_names = {x.id for x in ast.walk(dep_arg) if isinstance(x, ast.Name) and x.id in loc.defs} if dep_arg is not None else set()
    dep_names = {n for n in dep_names if any(isinstance(d, (ast.Call, ast.Set, ast.SetComp, ast.List, ast.ListComp)) for d in loc.defs.get(n, []) if d is not None)}
    if len(dep_names) != 1:
        raise Undecided(f'{qn}: cannot find the collection behind TestSerialisation.depends ({sorted(dep_names)})')
    dv = next(iter(dep_names))
    sinks: T.List[T.Tuple[ast.AST, ast.AST]] = []
    recorded: T.Dict[str, T.Set[str]] = {}
    for d in loc.defs.get(dv, []):
        if d is None:
            continue
        for a in ast.walk(d):
            c = attr_chain(a)
            if c == f'{tv}.depends':
                recorded.setdefault('depends', set()).add('*')
    for c in ast.walk(loops[0]):
        if isinstance(c, ast.Call) and isinstance(c.func, ast.Attribute) and isinstance(c.func.value, ast.Name) and c.func.value.id == dv \
                and c.func.attr in ('add', 'append') and len(c.args) == 1:
            sinks.append((c, c.args[0]))
        elif isinstance(c, ast.Call) and isinstance(c.func, ast.Attribute) and isinstance(c.func.value, ast.Name) and c.func.value.id == dv \
                and c.func.attr in ('update', 'extend', 'discard', 'remove', 'clear'):
            raise Undecided(f'{qn}: `{short(c)}` fills the depends collection in a way this rule does not follow')
    for role, cl in _target_classes(fn, loops[0], sinks, qn).items():
        recorded.setdefault(role, set()).update(cl)
    # the prerequisite statement: get_testlike_targets
    gm, gqn, gfn = _resolved_method(ctx, 'get_testlike_targets')
    gfn = normal_func(gm, gqn, fn=gfn)
    gloops = [l for l in gfn.body if isinstance(l, ast.For) and isinstance(l.target, ast.Name)]
    if len(gloops) != 1:
        raise Undecided(f'{gqn}: loop over the tests not found')
    ys = [(y, y.value) for y in ast.walk(gloops[0]) if isinstance(y, ast.Yield) and y.value is not None]
    if not ys or any(isinstance(y, ast.YieldFrom) for y in ast.walk(gfn)):
        raise Undecided(f'{gqn}: prerequisite targets are not produced by plain `yield` statements')
    built = _target_classes(gfn, gloops[0], ys, gqn)
    ctx.note(f'recorded as depends: { {k: sorted(v) for k, v in recorded.items()} }; built by the prerequisite statement: { {k: sorted(v) for k, v in built.items()} }')
    n = 0
    for role, cl in sorted(recorded.items()):
        have = built.get(role, set())
        n += 1
        missing = sorted(cl - have) if '*' not in have else []
        ctx.require(not missing, f'test {role}: every target class recorded in `depends` ({sorted(cl)}) is also built by {gqn}', gm, gqn,
                    f'{role}: {", ".join(missing)}', f'{qn} records a {"/".join(missing)} found in the test\'s {role} as a dependency (intro-tests.json `depends`, used by '
                    f'`meson test <name>`), but {gqn} — the prerequisite of a plain `meson test`/`ninja test` — yields only {sorted(have) or "nothing"} from '
                    f'the test\'s {role}: that dependency is not brought up to date before the test runs', gfn)
    ctx.floor('roles of a test that contribute dependencies', n, 3)


# ---------------------------------------------------------------------------
# R1h every per-source compile-statement builder whose object goes into the target's object list records its source (K8 siblings)

def r1h(ctx: RuleCtx) -> None:
    nmod = ctx.repo.module(NINJA)
    gt = nmod.func('NinjaBackend.generate_target')
    pm = parents(gt)
    builders: T.Dict[str, ast.Call] = {}
    for st in ast.walk(gt):
        if isinstance(st, ast.Assign) and len(st.targets) == 1 and isinstance(st.targets[0], ast.Tuple) and len(st.targets[0].elts) == 2 \
                and isinstance(st.targets[0].elts[0], ast.Name) and isinstance(st.value, ast.Call) and recv(st.value) == 'self':
            obj = st.targets[0].elts[0].id
            blk = pm.get(st)
            sibs = [x for f in ('body', 'orelse') for x in (getattr(blk, f, None) or []) if isinstance(getattr(blk, f, None), list)]
            if st in sibs and any(isinstance(c, ast.Call) and call_method(c) == 'append' and [norm(a) for a in c.args] == [obj]
                                  for x in sibs[sibs.index(st):] for c in ast.walk(x)):
                loopvars = {l.target.id for l in _enclosing(pm, st) if isinstance(l, ast.For) and isinstance(l.target, ast.Name)}
                if any(isinstance(a_, ast.Name) and a_.id in loopvars for a_ in list(st.value.args) + [k.value for k in st.value.keywords]):
                    builders.setdefault(call_method(st.value) or '', st.value)
    ctx.floor('per-source object builders called by generate_target', len(builders), 2)
    sig = params(nmod.func('NinjaBackend.create_target_source_introspection'))
    _flag_agreement(ctx, nmod, gt, builders)
    for name, call in sorted(builders.items()):
        bm, qn, fn = _resolved_method(ctx, name)
        fn = normal_func(bm, qn, fn=fn)
        ps = params(fn)
        # the parameter that receives the source: bound from the loop variable of the enclosing source loop
        src_params = [p_ for p_, a in bind_args(call, fn).items() if isinstance(a, ast.Name) and any(
            isinstance(l, ast.For) and isinstance(l.target, ast.Name) and l.target.id == a.id for l in _enclosing(pm, call))]
        if len(src_params) != 1:
            raise Undecided(f'{qn}: cannot identify the source parameter at `{short(call)}`')
        sp = src_params[0]
        recs = method_calls(fn, 'create_target_source_introspection', nested=False)
        fl = Flow(fn, nested=False)
        good = []
        for c in recs:
            b = bind_args(c, None, sig)
            vals = [b[k] for k in ('sources', 'generated_sources') if k in b]
            if any(f'param:{sp}' in fl.origins(v) for v in vals):
                good.append(c)
        # closed world for the absence case: the source is not handed to another method that could record it
        handed = [c for c in walk_no_nested(fn) if isinstance(c, ast.Call) and recv(c) == 'self' and call_method(c) != 'create_target_source_introspection'
                  and any(f'param:{sp}' in fl.origins(a) for a in list(c.args) + [k.value for k in c.keywords])
                  and _records_somewhere(ctx, call_method(c) or '')]
        elems = [c for c in walk_no_nested(fn) if isinstance(c, ast.Call) and call_method(c) == 'NinjaBuildElement'
                 and any(f'param:{sp}' in fl.origins(a) for a in c.args)]
        judge(ctx, bool(good), f'{qn}: the source `{sp}` it compiles is recorded for target_sources ({len(good)} site(s))', bool(elems) and not recs and not handed,
              bm, qn, elems[0] if elems else fn, f'{qn} emits a compile statement for `{sp}` ({short(elems[0], 70) if elems else "?"}) whose object generate_target links into the '
              'target, but never records the source with create_target_source_introspection: the file is compiled yet missing from intro-targets.json target_sources',
              elems[0] if elems else fn)
        _ = ps


def _generated_flag(ctx: RuleCtx, fn: FuncNode) -> T.Optional[str]:
    """The parameter of a per-source builder whose truth selects the sources / generated_sources list of its introspection record."""
    from ..tables import canon
    pm = parents(fn)
    ps = set(params(fn))
    found: T.Set[str] = set()
    for c in method_calls(fn, 'create_target_source_introspection', nested=False):
        cur: ast.AST = c
        while cur in pm:
            par = pm[cur]
            if isinstance(par, ast.If) and (cur in par.body or cur in par.orelse):
                a, _ = canon(par.test, True)
                cand = [x for x in (a.args if a.kind in ('is', 'truth', 'cmp') else ()) if isinstance(x, str) and x in ps]
                found.update(cand)
            cur = par
        for a_ in c.args:
            for x in ast.walk(a_):
                if isinstance(x, ast.IfExp):
                    found.update(y.id for y in ast.walk(x.test) if isinstance(y, ast.Name) and y.id in ps)
    return next(iter(found)) if len(found) == 1 else None


def _flag_agreement(ctx: RuleCtx, nmod: Module, gt: FuncNode, builders: T.Dict[str, ast.Call]) -> None:
    """Inside one if/else dispatch of generate_target the alternative builders are told the same thing about `generated`."""
    pm = parents(gt)
    n = 0
    for iff in ast.walk(gt):
        if not isinstance(iff, ast.If) or not iff.orelse:
            continue
        arms: T.List[T.Tuple[str, T.Any]] = []
        for blk in (iff.body, iff.orelse):
            calls = [c for st in blk for c in walk_no_nested(st) if isinstance(c, ast.Call) and recv(c) == 'self' and call_method(c) in builders and pm.get(pm.get(c)) is iff]
            if len(calls) != 1:
                arms = []
                break
            _, _, bfn = _resolved_method(ctx, call_method(calls[0]) or '')
            flag = _generated_flag(ctx, bfn)
            if flag is None:
                arms = []
                break
            b = bind_args(calls[0], bfn)
            v = b.get(flag)
            if v is None:
                pos = [a for a in bfn.args.posonlyargs + bfn.args.args if a.arg not in ('self', 'cls')]
                dflt = dict(zip([a.arg for a in pos][len(pos) - len(bfn.args.defaults):], bfn.args.defaults))
                dflt.update({a.arg: d for a, d in zip(bfn.args.kwonlyargs, bfn.args.kw_defaults) if d is not None})
                v = dflt.get(flag)
            if not isinstance(v, ast.Constant) or not isinstance(v.value, bool):
                arms = []
                break
            arms.append((f'{call_method(calls[0])}({flag}={v.value})', v.value))
        if len(arms) == 2:
            n += 1
            ctx.require(arms[0][1] == arms[1][1], f'generate_target: alternative builders of one source loop agree on the generated flag ({arms[0][0]}, {arms[1][0]})', nmod,
                        'NinjaBackend.generate_target', f'{arms[0][0]} vs {arms[1][0]}', f'in one source loop of generate_target the alternatives are called as {arms[0][0]} and '
                        f'{arms[1][0]}: the same kind of source is filed under `sources` by one builder and under `generated_sources` by the other in intro-targets.json', iff)
    ctx.note(f'builder dispatches compared for the generated flag: {n}')


def _enclosing(pm: T.Dict[ast.AST, ast.AST], n: ast.AST) -> T.List[ast.AST]:
    out = []
    while n in pm:
        n = pm[n]
        out.append(n)
    return out


def _records_somewhere(ctx: RuleCtx, meth: str, depth: int = 2) -> bool:
    try:
        _, _, fn = _resolved_method(ctx, meth)
    except Undecided:
        return True      # cannot see into it: assume it might
    if method_calls(fn, 'create_target_source_introspection', nested=False):
        return True
    if depth <= 0:
        return False
    return any(_records_somewhere(ctx, call_method(c) or '', depth - 1) for c in walk_no_nested(fn)
               if isinstance(c, ast.Call) and recv(c) == 'self' and (call_method(c) or '').startswith('generate_'))


# ---------------------------------------------------------------------------
# R2f the placeholder names of a target's install dirs are index-aligned with the install dirs they are zipped with

def r2f(ctx: RuleCtx) -> None:
    bm, qn, fn = _resolved_method(ctx, 'generate_target_install')
    fl = Flow(fn, nested=False)
    zips = [c for c in walk_no_nested(fn) if isinstance(c, ast.Call) and isinstance(c.func, ast.Name) and c.func.id == 'zip']
    paired = [c for c in zips if any(any(o.endswith('.install_dir_names') and o.startswith('call:') for o in fl.origins(a)) for a in c.args)
              and any(any(o.endswith('.install_dir') or o.endswith('.get_install_dir') for o in fl.origins(a)) for a in c.args)]
    if not paired:
        raise Undecided(f'{qn}: no zip() pairing install dirs with their placeholder names found')
    ctx.ok(f'{qn}: {len(paired)} zip() site(s) pair install_dir[k] with install_dir_names()[k]')
    bmod = ctx.repo.module('mesonbuild/build.py')
    n = 0
    for q, f in sorted(bmod.funcs().items()):
        if not q.endswith('.install_dir_names') or q.count('.') != 1:
            continue
        n += 1
        f = normal_func(bmod, q, inline=0)
        raw = bmod.func(q)
        comps = [c for c in ast.walk(raw) if isinstance(c, (ast.ListComp, ast.GeneratorExp)) and len(c.generators) == 1 and attr_chain(c.generators[0].iter) == 'self.install_dir']
        loops = [l for l in ast.walk(raw) if isinstance(l, ast.For) and attr_chain(l.iter) == 'self.install_dir']
        filtered = [c for c in comps if c.generators[0].ifs]
        for l in loops:
            pm = parents(l)
            for a in method_calls(l, 'append'):
                cur: ast.AST = a
                while cur in pm and cur is not l:
                    cur = pm[cur]
                    if isinstance(cur, ast.If) and not cur.orelse:
                        filtered.append(l)  # type: ignore[arg-type]
        understood = bool(comps or loops) or any(isinstance(x, ast.BinOp) and isinstance(x.op, ast.Mult) and 'self.install_dir' in {attr_chain(y) for y in ast.walk(x)} for x in ast.walk(raw)) \
            or any(isinstance(x, ast.Subscript) for r in ast.walk(raw) if isinstance(r, ast.Return) and r.value is not None for x in ast.walk(r.value))
        judge(ctx, understood and not filtered, f'{q}: one placeholder name per entry of self.install_dir (no filter)', bool(filtered), bmod, q,
              filtered[0] if filtered else raw, f'{q} drops entries while walking self.install_dir, so name k no longer belongs to install dir k: {qn} zips the two lists '
              'positionally and intro-install_plan.json reports a later output\'s placeholder directory (and loses the last ones)', filtered[0] if filtered else raw)
        _ = f
    ctx.floor('install_dir_names implementations', n, 2)


# ---------------------------------------------------------------------------
# R6 a user file handed to a configure-time compiler check is recorded as a build definition file (K8 siblings, seed6/3 family)

COMPILER_HOLDER = 'mesonbuild/interpreter/compiler.py'
DEPFILE = 'mesonbuild/depfile.py'


def _file_typed_positions(fn: FuncNode) -> T.Set[int]:
    """Indices of the fixed positional arguments that `typed_pos_args` declares to accept a File object."""
    out: T.Set[int] = set()
    for d in fn.decorator_list:
        if isinstance(d, ast.Call) and (attr_chain(d.func) or '').split('.')[-1] == 'typed_pos_args':
            for i, a in enumerate(d.args[1:]):
                ts = a.elts if isinstance(a, ast.Tuple) else [a]
                if any((attr_chain(t) or '').split('.')[-1] == 'File' for t in ts):
                    out.add(i)
    return out


def _is_file_atom(e: ast.AST, val: bool, v: str, loc: Locals) -> T.Optional[bool]:
    """Truth of `v is a File` that the condition `e` observed as `val` establishes (None: says nothing about it)."""
    from ..tables import canon
    for _ in range(3):
        while isinstance(e, ast.UnaryOp) and isinstance(e.op, ast.Not):
            e, val = e.operand, not val
        if isinstance(e, ast.Name) and e.id not in params(loc.fn):
            ds = loc.defs.get(e.id, [])
            if len(ds) == 1 and ds[0] is not None:
                e = ds[0]          # a condition named as a local first
                continue
        break
    try:
        a, pol = canon(e, val)
    except Undecided:
        return None
    if a.kind == 'isinstance' and a.args[0] == v:
        kinds = {t.split('.')[-1] for t in a.args[1]}
        if kinds == {'File'}:
            return pol
        if kinds == {'str'}:
            return not pol         # the declared type is (str, File)
        raise Undecided(f'{loc.fn.name}: type test on the file operand outside the understood idioms: {short(e)}')
    return None


def r6(ctx: RuleCtx) -> None:
    cmod = ctx.repo.module(COMPILER_HOLDER)
    n_methods = n_paths = 0
    # does the recorder itself ignore a File created at setup time (`is_built`)?  Then a path that skips the call for such a file loses nothing.
    imod = ctx.repo.module(INTERP)
    rec = normal_func(imod, 'Interpreter.add_build_def_file')
    rp0 = param(rec, 0, 'Interpreter.add_build_def_file')
    rloc = Locals(rec)
    built_ignored = False
    for pth in enumerate_paths(rec.body, handlers=True):
        stores = any(recv(c) == 'self.build_def_files' for ev in pth.events if ev.kind == 'stmt' and ev.node is not None for c in walk_no_nested(ev.node) if isinstance(c, ast.Call))
        cm = pth.cond_map()
        if not stores and cm.get(f'{rp0}.is_built') is True and any(_is_file_atom(ev.node, bool(ev.val), rp0, rloc) for ev in pth.events if ev.kind == 'cond' and ev.node is not None):
            built_ignored = True
    for cname in sorted(cmod.classes()):
        for mname, raw in sorted(cmod.methods(cname).items()):
            idx = _file_typed_positions(raw)
            if not idx:
                continue
            qn = f'{cname}.{mname}'
            fn = normal_func(cmod, qn, fn=raw)
            loc = Locals(fn)
            pa = param(fn, 0, qn)
            # the local(s) bound to a File-typed positional argument
            vs = sorted({nm for nm, ds in loc.defs.items() for d in ds if isinstance(d, ast.Subscript) and isinstance(d.value, ast.Name) and d.value.id == pa
                         and isinstance(d.slice, ast.Constant) and d.slice.value in idx})
            fl = Flow(fn)
            checks = [c for c in ast.walk(fn) if isinstance(c, ast.Call) and (recv(c) or '').split('.')[:2] == ['self', 'compiler']
                      and any(f'param:{pa}' in fl.origins(a) for a in c.args)]
            if not checks:
                continue          # the file is not read by a configure-time compiler check here
            if len(vs) != 1:
                raise Undecided(f'{qn}: cannot find the local bound to the File-typed positional argument ({vs})')
            v = vs[0]
            n_methods += 1
            bad: T.Dict[str, T.Tuple[str, ast.AST]] = {}
            for pth in enumerate_paths(fn.body):
                if pth.outcome != 'return':
                    continue          # a failing check aborts the configuration: nothing is written
                live: T.Set[str] = set()          # the locals that hold the object the user passed, at this point of the path (copy tracking)
                recorded = late = built = False
                is_file: T.Optional[bool] = None
                checked: T.Optional[ast.Call] = None
                escapes: T.List[ast.Call] = []
                for ev in pth.events:
                    if ev.node is None:
                        continue
                    if ev.kind == 'cond':
                        for nm in sorted(live):
                            if is_file is None:
                                is_file = _is_file_atom(ev.node, bool(ev.val), nm, loc)
                            if norm(ev.node) == f'{nm}.is_built' and ev.val:
                                built = True
                    roots = [ev.node] if ev.kind != 'stmt' or not isinstance(ev.node, (ast.If, ast.For, ast.While, ast.With, ast.Try)) else []
                    for r_ in roots:
                        for c in walk_no_nested(r_):
                            if not isinstance(c, ast.Call):
                                continue
                            operands = [a for a in list(c.args) + [k.value for k in c.keywords] if isinstance(a, ast.Name)]
                            direct = [a for a in operands if a.id in live]
                            if call_method(c) == 'add_build_def_file':
                                if direct:
                                    recorded = True
                                elif any(f'param:{pa}' in fl.origins(a) for a in c.args):
                                    late = True
                            elif any(c is k for k in checks):
                                checked = checked or c
                            elif direct and call_name(c) != 'isinstance' and (recv(c) or '').split('.')[0] != 'mlog':
                                escapes.append(c)
                    if ev.kind == 'stmt' and isinstance(ev.node, (ast.Assign, ast.AnnAssign, ast.AugAssign)):
                        tg = ev.node.targets if isinstance(ev.node, ast.Assign) else [ev.node.target]
                        val_ = getattr(ev.node, 'value', None)
                        src_ = isinstance(val_, ast.Subscript) and isinstance(val_.value, ast.Name) and val_.value.id == pa and isinstance(val_.slice, ast.Constant) \
                            and val_.slice.value in idx
                        copy_ = isinstance(val_, ast.Name) and val_.id in live
                        for t in tg:
                            if isinstance(t, ast.Name) and not isinstance(ev.node, ast.AugAssign) and (src_ or copy_):
                                live.add(t.id)
                            else:
                                for x in ast.walk(t):
                                    if isinstance(x, ast.Name):
                                        live.discard(x.id)
                if checked is None:
                    continue
                n_paths += 1
                if recorded or is_file is False:
                    continue
                if built_ignored and built:
                    continue          # a file created at setup time: the recorder ignores it anyway
                if late:
                    raise Undecided(f'{qn}: the file operand is recorded only after `{v}` was rebound; cannot tell whether the derived object names the same file')
                if escapes:
                    raise Undecided(f'{qn}: the file operand is handed to `{short(escapes[0])}` before the check; cannot tell whether that records it')
                what = ' & '.join(('' if val else 'not ') + t for t, val in pth.conds() if 'isinstance' in t or 'is_built' in t)[:200] or 'no test on the operand'
                bad.setdefault(f'self.compiler.{call_method(checked)}', (what, checked))
            for callee, (what, node) in sorted(bad.items()):
                ctx.violation(cmod, qn, f'file operand of {callee}: recorded before the check', f'{qn} accepts a File (typed_pos_args) and hands it to {callee}() on the path [{what}] '
                              f'without self.interpreter.add_build_def_file(<the file>): a source file read by the check at configure time is missing from '
                              'intro-buildsystem_files.json and from the regeneration dependencies of build.ninja (editing it does not reconfigure)', node)
            if not bad:
                ctx.ok(f'{qn}: every returning path that hands a File operand to a compiler check records it as a build definition file')
    ctx.floor('compiler check methods that accept a File', n_methods, 3)
    ctx.floor('returning paths through a compiler check', n_paths, 3)


# ---------------------------------------------------------------------------
# R7 configure_file(depfile:): every dependency of every rule for the output is recorded (seed6/1 family)

def r7(ctx: RuleCtx) -> None:
    # (a) the consumer: every element of DepFile(...).get_all_dependencies(...) goes to add_build_def_file
    imod = ctx.repo.module(INTERP)
    n_cons = 0
    for qn, raw in sorted(imod.funcs().items()):
        if not any(isinstance(c, ast.Call) and (call_name(c) or '').split('.')[-1] == 'DepFile' for c in ast.walk(raw)):
            continue
        fn = normal_func(imod, qn, fn=raw, inline=0)
        loc = Locals(fn)
        dfs = {nm for nm, ds in loc.defs.items() if any(isinstance(d, ast.Call) and (call_name(d) or '').split('.')[-1] == 'DepFile' for d in ds if d is not None)}
        gets = [c for c in ast.walk(fn) if isinstance(c, ast.Call) and call_method(c) == 'get_all_dependencies'
                and (recv(c) in dfs or (isinstance(c.func, ast.Attribute) and isinstance(c.func.value, ast.Call) and (call_name(c.func.value) or '').split('.')[-1] == 'DepFile'))]
        if not gets:
            raise Undecided(f'{qn}: a DepFile is built but get_all_dependencies() is not called on it in an understood way')
        for g in gets:
            names = {nm for nm, ds in loc.defs.items() if any(d is g for d in ds)}
            loops = [l for l in ast.walk(fn) if isinstance(l, ast.For) and isinstance(l.target, ast.Name)
                     and (l.iter is g or (isinstance(l.iter, ast.Name) and l.iter.id in names))]
            if len(loops) != 1:
                raise Undecided(f'{qn}: the dependencies read from the depfile are not consumed by one plain for loop')
            lv = loops[0].target.id
            n_cons += 1
            bad = None
            for pth in enumerate_paths(loops[0].body):
                if pth.outcome == 'raise':
                    continue
                if not any(call_method(c) == 'add_build_def_file' and any(isinstance(a, ast.Name) and a.id == lv for a in c.args) for c in pth.calls()):
                    bad = pth
            ctx.require(bad is None, f'{qn}: every dependency listed in the depfile for the output is passed to add_build_def_file', imod, qn, 'depfile dependencies: each recorded',
                        f'{qn} skips dependencies of the configure_file depfile on the path [{bad.describe() if bad else ""}]: a file the command read is missing from '
                        'intro-buildsystem_files.json and from the regeneration dependencies', loops[0])
    ctx.floor('consumers of a configure_file depfile', n_cons, 1)
    # (b) the table behind get_all_dependencies: rules that name the same target are merged, never overwritten
    dmod = ctx.repo.module(DEPFILE)
    qn = 'DepFile.__init__'
    fn = normal_func(dmod, qn)
    loc = Locals(fn)
    pm = parents(fn)
    tabs = {st.value.id for st in ast.walk(fn) if isinstance(st, (ast.Assign, ast.AnnAssign)) and isinstance(getattr(st, 'value', None), ast.Name)
            and attr_chain(st.targets[0] if isinstance(st, ast.Assign) else st.target) == 'self.depfile'}
    if len(tabs) != 1:
        raise Undecided(f'{qn}: the local that becomes self.depfile not found ({sorted(tabs)})')
    tab = next(iter(tabs))
    n_w = 0
    merged = False
    for st in ast.walk(fn):
        in_loop = any(isinstance(x, (ast.For, ast.While)) for x in _enclosing(pm, st))
        subs = [t for t in st.targets if isinstance(t, ast.Subscript) and isinstance(t.value, ast.Name) and t.value.id == tab] if isinstance(st, ast.Assign) else []
        if subs and in_loop:
            n_w += 1
            key = norm(subs[0].slice)
            reads_old = any(isinstance(x, ast.Name) and x.id == tab for x in ast.walk(st.value))
            guarded = False
            cur: ast.AST = st
            for par in _enclosing(pm, st):
                if isinstance(par, ast.If):
                    t, neg = par.test, cur in par.orelse
                    while isinstance(t, ast.UnaryOp) and isinstance(t.op, ast.Not):
                        t, neg = t.operand, not neg
                    if isinstance(t, ast.Compare) and len(t.ops) == 1 and isinstance(t.ops[0], (ast.In, ast.NotIn)) and norm(t.left) == key and norm(t.comparators[0]) == tab:
                        absent = isinstance(t.ops[0], ast.NotIn) != neg
                        guarded = guarded or absent
                cur = par
            if reads_old and not guarded:
                raise Undecided(f'{qn}: `{short(st)}` rebuilds the entry from the previous one; merge not followed')
            ctx.require(guarded, f'{qn}: `{short(st, 60)}` only creates the entry of a target seen for the first time', dmod, qn, 'per-target entry: created once, then extended',
                        f'{qn} assigns a fresh entry to {tab}[{key}] for every rule: a depfile that names the output in several rules (`out: a` / `out: b`) keeps only the '
                        'dependencies of the last one, so files the configure_file command read are missing from intro-buildsystem_files.json and the regeneration rule', st)
        elif isinstance(st, ast.Call) and call_method(st) in ('setdefault',) and recv(st) == tab and in_loop:
            n_w += 1
            ctx.ok(f'{qn}: `{short(st, 60)}` keeps the entry of a target that was seen before')
        elif isinstance(st, ast.Call) and recv(st) == tab and call_method(st) in ('update', 'pop', 'clear', 'popitem', '__setitem__'):
            raise Undecided(f'{qn}: `{short(st)}` writes the table in a way this rule does not follow')
        if isinstance(st, ast.Call) and call_method(st) in ('add', 'update') and isinstance(st.func, ast.Attribute) and isinstance(st.func.value, ast.Attribute) \
                and st.func.value.attr == 'deps':
            merged = True
        if isinstance(st, ast.AugAssign) and isinstance(st.op, ast.BitOr) and isinstance(st.target, ast.Attribute) and st.target.attr == 'deps':
            merged = True
    if not merged and not any(f.function == qn and f.rule == 'C15.R7' for f in ctx.findings):
        raise Undecided(f'{qn}: no in-place extension of a `.deps` set found; the way rules are merged is not understood')
    ctx.floor('writes to the per-target table of the depfile', n_w, 1)


# ---------------------------------------------------------------------------
# R8 run_command(): a relative string argument is registered below the directory the command runs in

IOBJ = 'mesonbuild/interpreter/interpreterobjects.py'


def _expand_cond(fn: FuncNode, e: ast.AST, keep: T.Set[str], depth: int = 5) -> ast.AST:
    """`e` with single-definition locals inlined; a local bound once in each arm of one if/else becomes a conditional expression."""
    loc = Locals(fn)
    pm = parents(fn)
    ps = set(params(fn)) | keep

    def assign_of(v: ast.AST) -> T.Optional[ast.AST]:
        for st in ast.walk(fn):
            if isinstance(st, (ast.Assign, ast.AnnAssign)) and getattr(st, 'value', None) is v:
                return st
        return None

    def go(x: ast.AST, d: int) -> ast.AST:
        class _E(ast.NodeTransformer):
            def visit_Name(self, n: ast.Name) -> ast.AST:
                if not isinstance(n.ctx, ast.Load) or n.id in ps or n.id not in loc.defs:
                    return n
                ds = loc.defs[n.id]
                if d <= 0 or any(x_ is None for x_ in ds):
                    raise Undecided(f'{fn.name}: `{n.id}` is not bound to plain expressions')
                if len(ds) == 1:
                    return go(copy.deepcopy(ds[0]), d - 1)
                if len(ds) == 2:
                    a, b = assign_of(ds[0]), assign_of(ds[1])
                    par = pm.get(a) if a is not None else None
                    if par is not None and isinstance(par, ast.If) and b is not None and pm.get(b) is par and (a in par.body) != (b in par.body) and (a in par.body or a in par.orelse) \
                            and (b in par.body or b in par.orelse):
                        t_, f_ = (ds[0], ds[1]) if a in par.body else (ds[1], ds[0])
                        return ast.IfExp(test=go(copy.deepcopy(par.test), d - 1), body=go(copy.deepcopy(t_), d - 1), orelse=go(copy.deepcopy(f_), d - 1))
                raise Undecided(f'{fn.name}: `{n.id}` has {len(ds)} definitions that are not the two arms of one if/else')
        return _E().visit(x)
    return go(copy.deepcopy(e), depth)


def _pick_world(e: ast.AST, atom: str, w: bool) -> ast.AST:
    """`e` with every conditional expression on `atom` (or its negation) replaced by the arm taken when atom == w."""
    class _P(ast.NodeTransformer):
        def visit_IfExp(self, n: ast.IfExp) -> ast.AST:
            t, pol = n.test, True
            while isinstance(t, ast.UnaryOp) and isinstance(t.op, ast.Not):
                t, pol = t.operand, not pol
            if norm(t) == atom:
                return self.visit(n.body if pol == w else n.orelse)
            return self.generic_visit(n)
    return _P().visit(copy.deepcopy(e))


def r8(ctx: RuleCtx) -> None:
    imod = ctx.repo.module(INTERP)
    omod = ctx.repo.module(IOBJ)
    qn = 'Interpreter.run_command_impl'
    fn = imod.func(qn)
    init = omod.func('RunProcess.__init__')
    rc = omod.func('RunProcess.run_command')
    # the directory the process runs in, as a term over the parameters of RunProcess.run_command
    popen = [c for c in ast.walk(rc) if isinstance(c, ast.Call) and call_method(c) == 'Popen' and kwarg(c, 'cwd') is not None]
    if len(popen) != 1:
        raise Undecided(f'RunProcess.run_command: {len(popen)} Popen(cwd=...) calls')
    cwd = _expand_cond(rc, kwarg(popen[0], 'cwd'), set())
    inner = [c for c in method_calls(init, 'run_command', nested=False) if recv(c) == 'self']
    if len(inner) != 1:
        raise Undecided('RunProcess.__init__: expected one self.run_command(...) call')
    b1 = bind_args(inner[0], rc)
    if any(not (isinstance(v, ast.Name) and v.id in params(init) + [a.arg for a in init.args.kwonlyargs]) for v in b1.values()):
        raise Undecided('RunProcess.__init__ does not hand its parameters to run_command unchanged')
    sites = [c for c in ast.walk(fn) if isinstance(c, ast.Call) and call_method(c) == 'RunProcess']
    if len(sites) != 1:
        raise Undecided(f'{qn}: {len(sites)} RunProcess(...) calls')
    b0 = bind_args(sites[0], init)
    pos = [a for a in init.args.posonlyargs + init.args.args if a.arg != 'self']
    dflt = dict(zip([a.arg for a in pos][len(pos) - len(init.args.defaults):], init.args.defaults))
    env0: T.Dict[str, ast.AST] = {}
    for k, v in b1.items():
        a0 = b0.get(v.id, dflt.get(v.id))  # type: ignore[attr-defined]
        if a0 is None:
            raise Undecided(f'{qn}: RunProcess(...) does not pass `{v.id}`')  # type: ignore[attr-defined]
        env0[k] = a0
    flag_p = [k for k in params(rc) if any(isinstance(t, ast.IfExp) and norm(t.test).lstrip('not ') == k for t in ast.walk(cwd))]
    if len(flag_p) != 1:
        raise Undecided(f'RunProcess.run_command: the working directory does not depend on exactly one flag ({flag_p})')
    atom = norm(env0[flag_p[0]])
    args_p = [k for k, v in b1.items() if k == params(rc)[1]]
    arglist = norm(env0[args_p[0]]) if args_p else ''
    loops = [l for l in ast.walk(fn) if isinstance(l, ast.For) and isinstance(l.target, ast.Name) and norm(l.iter) == arglist
             and any(recv(c) == 'self' for c in method_calls(l, 'add_build_def_file'))]
    if len(loops) != 1:
        raise Undecided(f'{qn}: expected one loop over `{arglist}` that records build definition files, found {len(loops)}')
    lv = loops[0].target.id  # type: ignore[attr-defined]
    n = 0
    for pth in enumerate_paths(loops[0].body):
        env: T.Dict[str, ast.AST] = {}
        for ev in pth.events:
            if ev.kind != 'stmt':
                continue
            st = ev.node
            for c in [c for c in ast.walk(st) if isinstance(c, ast.Call) and call_method(c) == 'add_build_def_file' and recv(c) == 'self' and len(c.args) == 1]:
                x = _expand_cond(fn, _Sub(env).visit(copy.deepcopy(c.args[0])), {lv})
                for w in (True, False):
                    parts = _join_parts(_pick_world(x, atom, w))
                    parts = [q for p_ in parts for q in _join_parts(p_)]
                    if not (isinstance(parts[-1], ast.Name) and parts[-1].id == lv) or any(lv in {y.id for y in ast.walk(p_) if isinstance(y, ast.Name)} for p_ in parts[:-1]) \
                            or any(isinstance(y, ast.IfExp) for p_ in parts for y in ast.walk(p_)):
                        raise Undecided(f'{qn}: registered path `{short(c.args[0])}` is not os.path.join(<directory>, {lv})')
                    want = _join_parts(_pick_world(_expand_cond(fn, _Sub(dict(env0)).visit(copy.deepcopy(cwd)), {lv}), atom, w))
                    want = [q for p_ in want for q in _join_parts(p_)]
                    if any(isinstance(y, ast.IfExp) for p_ in want for y in ast.walk(p_)):
                        raise Undecided('RunProcess.run_command: working directory not understood')
                    got_, want_ = [norm(p_) for p_ in parts[:-1]], [norm(p_) for p_ in want]
                    n += 1
                    ctx.require(got_ == want_, f'{qn}: with {atom}={w} a string argument is registered below {want_}, the directory the command runs in', imod, qn,
                                f'add_build_def_file({short(c.args[0])}) when {atom}={w}',
                                f'when {atom} is {w} the command runs in os.path.join({", ".join(want_)}) but a relative file argument is looked up in '
                                f'os.path.join({", ".join(got_)}): add_build_def_file ignores paths that do not exist, so the file the command read is missing from '
                                'intro-buildsystem_files.json and from the regeneration dependencies', c)
            if isinstance(st, ast.Assign) and len(st.targets) == 1 and isinstance(st.targets[0], ast.Name):
                env[st.targets[0].id] = _Sub(env).visit(copy.deepcopy(st.value))
    ctx.floor('run_command file-argument registrations compared with the working directory', n, 2)


RULES = [
    Rule('C15.R1a', 'tests/benchmarks: the pickled serialisation is the introspected one', r1a),
    Rule('C15.R1b', 'install plan/installed/targets: install.dat and the JSON share create_install_data()', r1b),
    Rule('C15.R1c', 'target_sources come from the store the statement generators fill, keyed by target id', r1c),
    Rule('C15.R1f', 'recorded source lists are the lists the compile statement consumes (no unfiltered superset)', r1f),
    Rule('C15.R1g', 'create_test_serialisation (run for the pickle and again for the JSON) does not mutate the model', r1g),
    Rule('C15.R1h', 'every per-source builder whose object is linked into the target records its source', r1h),
    Rule('C15.R1d', 'build options projection covers every value store of the get_option() resolver', r1d),
    Rule('C15.R1e', 'every documented intro file is produced from (coredata, build, backend); buildsystem_files = Build.def_files', r1e),
    Rule('C15.R2a', 'documented test keys are projected from the TestSerialisation fields mtest reads', r2a),
    Rule('C15.R2b', 'install plan reports the fields should_install filters on; five categories covered', r2b),
    Rule('C15.R2c', 'list_installed agrees with the per-kind installers on source and destination fields', r2c),
    Rule('C15.R2d', 'every install producer: install_path and install_path_name are joined from the same per-file components', r2d),
    Rule('C15.R2e', 'every target class recorded as a test dependency is built by the test prerequisite statement', r2e),
    Rule('C15.R2f', 'install_dir_names() is index-aligned with install_dir (they are zipped positionally)', r2f),
    Rule('C15.R3', 'mintro and backend agree on the target output directory', r3),
    Rule('C15.R5', 'add_build_def_file rules out the build dir before testing the source dir on every recording path', r5),
    Rule('C15.R6', 'a File handed to a configure-time compiler check is recorded as a build definition file on every returning path', r6),
    Rule('C15.R7', 'configure_file depfile: rules naming the same target are merged and every dependency is recorded', r7),
    Rule('C15.R8', 'run_command: a relative file argument is registered below the directory the command runs in', r8),
    Rule('C15.R4', 'introspection generated only after backend.generate, same build/backend', r4),
]
_ = (Flow, call_name, walk_no_nested, method_calls, const_strs, attrs_of, intro_table, BACKENDS, MTEST, MINSTALL, INTERP, IDEDOC)
