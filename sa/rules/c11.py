"""C11 — installation is confined to DESTDIR, exact, and reversible (DESIGN §2 C11, data sheet A.12)."""
from __future__ import annotations

import ast
import posixpath
import typing as T

from ..core import Module, Undecided, AnalysisError, norm, short, attr_chain, calls_in, walk_no_nested, kwarg
from ..cfg import CFG, Node
from ..flow import Flow
from ..report import Rule, RuleCtx
from .. import tables
from ..tables import Atom
from ..consteval import fold_const
from . import c11_util as U
from .c11_util import Ref, Rooting, NotRooted, Demand

MIN = 'mesonbuild/minstall.py'
UNI = 'mesonbuild/scripts/uninstall.py'
SCR = 'mesonbuild/scripts/__init__.py'

EXPLANATION = (
    'Decides structural clauses of C11 on minstall.py / scripts/uninstall.py / scripts/__init__.py: '
    'R1 every reference to a file-system mutating callable (os/shutil/subprocess members classified by a reference table, '
    'depfixer.fix_rpath, Popen_safe, run_exe, the module-level set_*/sanitize helpers) inside class Installer is unreachable on the '
    'CFG when self.dry_run holds (and the script did not opt in), DirMaker only mutates through the wrapper it is constructed with, '
    'run() only opens the log and rebuilds; '
    'R2 every destination argument of every mutating call is, through all bindings of the names involved, derived from '
    'get_destdir_path/destdir_join/a rooted parameter joined with relative components, and get_destdir_path/destdir_join re-root '
    'absolute paths; R3 in each of the eight per-kind loops no effect is reachable for an item that should_install rejects, '
    'should_install equals the reference filter on all worlds, install_subdirs precedes every other effect, permission calls are '
    'the last effect of an iteration and every file copied by a per-kind loop reaches set_mode; '
    'R4 every creation call is followed on all normal paths by append_to_log of a destination, DirMaker records exactly the '
    'directories that did not exist and emits them deepest-first, the uninstall reader strips exactly the terminator the writer '
    'appends, skips exactly the comment prefix, reads the path the writer writes and only rmdir/unlinks the decoded name; '
    'R5 set_mode equals the reference permission table on all worlds; sanitize_permissions\' mode expression (row assignments composed '
    'symbolically) has the shape (0o777 if is_executable(path, no-follow) else 0o666) & ~umask and is_executable\'s mask folds to '
    'S_IXUSR|S_IXGRP|S_IXOTH; the per-kind loops pass the item\'s install_mode and the install umask; os.umask(install_umask) unless preserve. '
    'R8 (backend/backends.py) every component of a per-item tuple unpacked while install records are built is used, and the directory name '
    'appended for install_subdir is the basename of the recorded, trimmed source path. All functions are first brought into a normal form '
    '(loops over constant tuples unrolled, conditional callables and filter() desugared, named conditions / module constants / list-growth '
    'spellings / small membership tests normalised); calls are bound by signature; findings need a closed world, else Undecided. '
    'R8 also: a strip of an item attribute from the installed name (man page locale) performed under tests of that attribute is not skipped on a path that never tests it. '
    'R8 also: no field of an install record built in a loop depends on a local that the loop body redefines from per-item data and reads before defining it (a value carried over from the previous file, e.g. a guessed tag). '
    'R8 also (lockstep fields): two fields of a build record that the generator walks position by position (`zip(de.sources, de.rename)` over build.Data) are split together wherever records are built in a loop: at a constructor call inside a `for` statement (interpreter.py; thorough tier also mesonbuild/modules) one field of the pair must not be computed from the loop item (a per-iteration subset) while the other is the same, complete value in every iteration (the whole rename list handed to every per-directory record of install_data(preserve_path: true)); an omitted / None field is derived by the class record by record and is fine; a `raise` under tests of the list together with a mode flag of the building function (in it or in a same-class caller) makes the site Undecided instead. '
    'R4b also: the log writer records the entry itself - any str transform (strip chain / slice) applied to the entry before it is written may remove nothing but the terminator the writer then appends. '
    'Normal form N15: a local helper function (closure) used only by direct calls from its defining function is read at its calls (expression form `return E`, statement form without return); '
    'module-level single-binding constants are folded in the module scope when the log path is read (R1/R4b). '
    'R9 every Optional[bool] (tri-state) parameter of an Installer method, e.g. follow_symlinks: for the explicit values True and False of the declared domain no rebinding of the parameter (or of a local holding it) to another value is reachable before a use, '
    'the parameter is read and handed on as an argument, and a sibling method with a tri-state parameter of the same name is called with it. '
    'R5c (interpreter.py) the mode given to build.EmptyDir (install_emptydir, a directory) does not flow through a function that removes S_ISVTX (the files-only sticky-bit stripper). '
    'Does NOT decide: which tag Backend.guess_install_tag assigns to an untagged entry (precedence between nested well-known directories is value-level and not documented), '
    'that the log of an --only-changed run still names the preserved files (they were not created by that run), validation of '
    'install_mode owner/group values in the interpreter, that InstallData otherwise matches the build definition, idempotence beyond the remove-before-create clause, that the per-kind loops hand the item\'s follow_symlinks to the copier where the backend recorded one (R9 only checks forwarding between methods that both declare the parameter), whether the files-only sticky-bit stripper is applied where it should be, ' 
    'the granularity of the --only-changed timestamp comparison (should_preserve_existing_file comparing int()-truncated instead of raw st_mtime is a value-level change of the compared quantity; seed r7-2), '
    'the relative order of the per-kind installers other than install_subdirs first (install_symlinks before the file kinds lets later copies write through an installed absolute link, '
    'but which orders are safe depends on the destinations of a particular project and a loop over a tuple of bound methods is not unrolled; seed r7-3), '
    'that a record field split together with its lockstep partner is split by the *same* grouping and in the same order (only per-iteration vs whole is read; records built in comprehensions or helpers are Undecided), '
    'that intro-install_plan.json lists every destination when one source file is installed to several places (mintro.list_install_plan keys by source path; the plan is a report, not a created file; seed r7 C11-2), '
    'that directories created by an earlier install run are still removed by uninstall after a reinstall or --dry-run has rewritten install-log.txt (R4a reads what one run records; the log of a run lists what that run created; seed r7 C11-3), '
    'symlink-escapes through '
    'pre-existing links, `..` components of install paths, or what custom install scripts write.')
ASSUMPTIONS = [
    'the effect classification of os/shutil/subprocess members in sa/rules/c11_util.py follows the Python library reference',
    'install paths in InstallData contain no `..` component and the prefix is absolute',
    'str.strip()/rstrip() without argument remove exactly Unicode whitespace; iterating a text file yields lines ending in one \\n',
]
TECHNIQUE = ('who-may-call over a classified effect table + CFG reachability under three-valued guard atoms (K2/K1); must-rootedness over all '
             'bindings (def-use) with interprocedural parameter demands (K3); decision tables by path enumeration, compared with references on all '
             'worlds of their atoms and by symbolic shape of outcomes/effects after copy propagation, constants folded (K6/K5); strip-set algebra '
             'of the reader\'s str-method chain against the writer\'s folded terminator (K11-like); must-flow of unpacked item components, upward-exposed (loop-carried) reads in the def-use closure of record fields, loop-variance (item-dependent vs whole) of zip-paired record fields at constructor calls and sanitiser flow in install-data generation (K3); CFG reachability under the atoms of a declared Optional[bool] domain (R9); source-to-source normal form first; no repository expression is evaluated on sample values')


# =============================================================================================
# shared model of minstall.py

class Model:
    def __init__(self, mod: Module):
        self.mod = mod
        self.top: T.Dict[str, U.FuncNode] = {q: f for q, f in mod.funcs().items() if '.' not in q and '#' not in q}
        self.inst = mod.methods('Installer')
        self.dm = mod.methods('DirMaker')
        self.mut: T.Dict[str, T.List[Ref]] = {}
        changed = True
        while changed:
            changed = False
            for q, f in self.top.items():
                if q in self.mut:
                    continue
                refs = [r for r in U.effect_refs(mod, f, local_mutating=set(self.mut)) if r.cls == 'fs']
                if refs:
                    self.mut[q] = refs
                    changed = True
        # refs once more with the full closure (order independent)
        for q in list(self.mut):
            self.mut[q] = [r for r in U.effect_refs(mod, self.top[q], local_mutating=set(self.mut)) if r.cls == 'fs']
        self.dry = DryRunScan(self)


class Site(T.NamedTuple):
    method: str
    ref: Ref
    guarded: bool
    forwards: str      # 'varargs' | 'params' | ''


class DryRunScan:
    """R1 core: per Installer method, is every mutating reference unreachable when self.dry_run holds."""

    def __init__(self, m: Model):
        self.sites: T.List[Site] = []
        self.process: T.List[T.Tuple[str, str]] = []
        self.optin: T.List[str] = []
        mod = m.mod
        self.appliers = _guarded_appliers(m)
        # a *wrapper* is thin: guard + primitive, nothing else (a bigger method with an inline guarded primitive is an ordinary method)
        self.thin: T.Set[str] = set()
        preds = {n_ for n_, f_ in m.inst.items()
                 if len([st for st in f_.body if not (isinstance(st, ast.Expr) and isinstance(st.value, ast.Constant))]) == 1 and isinstance(f_.body[-1], ast.Return)
                 and not U.effect_refs(mod, f_, local_mutating=set(m.mut))}
        for name, fn in m.inst.items():
            body = [st for st in fn.body if not (isinstance(st, ast.Expr) and isinstance(st.value, ast.Constant))]
            others = [x for x in (_self_method(c) for c in calls_in(fn)) if x and not any(k[0] == x for k in self.appliers) and x not in preds]
            if len(body) <= 4 and not others and not any(isinstance(n, (ast.For, ast.While, ast.Try)) for n in walk_no_nested(fn)):
                self.thin.add(name)
        for name, fn in m.inst.items():
            refs = U.effect_refs(mod, fn, local_mutating=set(m.mut), strict_meson=True)
            if not refs:
                continue
            for r in refs:
                if r.cls == 'process':
                    self.process.append((f'Installer.{name}', r.name))
            refs = [r for r in refs if r.cls == 'fs']
            if not refs:
                continue
            cfg = CFG(fn)
            alias = U.single_def_aliases(fn)
            facts: T.Dict[str, bool] = {'self.dry_run': True}
            for r in refs:
                if r.name.endswith('.run_exe') and r.call is not None and r.call.args and isinstance(r.call.args[0], ast.Name):
                    # ExecutableSerialisation.dry_run: the script itself asked to be run in dry-run mode (documented feature)
                    facts[f'{r.call.args[0].id}.dry_run'] = False
                    self.optin.append(f'Installer.{name}: `{r.call.args[0].id}.dry_run` (script opted in) assumed false')
            facts.update(_predicate_facts(m, lambda ps: {'self.dry_run': True}, []))
            reach = U.feasible_reach(cfg, [cfg.entry], facts, alias)
            for r in refs:
                nodes = U.node_of(cfg, r.node)
                for n in nodes:
                    e = n.expr()
                    if e is not None and U.expression_guarded(e, r.node):
                        raise Undecided(f'Installer.{name}: `{r.name}` sits behind an expression-level guard ({short(e)})')
                guarded = not any(n.id in reach for n in nodes)
                if not guarded:
                    inside_with = any(isinstance(w_, (ast.With, ast.AsyncWith)) and any(x is r.node for b_ in w_.body for x in ast.walk(b_))
                                      and any(isinstance(i_.context_expr, ast.Call) and (attr_chain(i_.context_expr.func) or '').startswith('self.') for i_ in w_.items)
                                      for w_ in walk_no_nested(fn))
                    if fn.decorator_list or inside_with:
                        raise Undecided(f'Installer.{name}: `{r.name}` is not under an `if not self.dry_run` test, but the method is decorated / the call sits in a '
                                        f'with-block the rule cannot see into')
                fw = ''
                if r.call is not None:
                    fw = 'varargs' if U.forwards_varargs(fn, r.call) else ('params' if U.forwards_params(fn, r.call) else '')
                else:
                    # the primitive handed, as a value, to a helper that applies its parameter only when not dry-run (callee summary)
                    ap = self._applied_by(fn, r)
                    if ap is not None:
                        guarded, fw = True, ap
                    elif not guarded and self._passed_to_unknown_method(m, fn, r):
                        raise Undecided(f'Installer.{name}: `{r.name}` is passed as a value to a method whose use of it the rule cannot summarise')
                self.sites.append(Site(name, r, guarded, fw))

    def _enclosing_call(self, fn: U.FuncNode, r: Ref) -> T.Optional[T.Tuple[ast.Call, int]]:
        for c in calls_in(fn):
            for i, a in enumerate(c.args):
                if a is r.node:
                    return c, i
        return None

    def _applied_by(self, fn: U.FuncNode, r: Ref) -> T.Optional[str]:
        hit = self._enclosing_call(fn, r)
        if hit is None:
            return None
        c, i = hit
        meth = _self_method(c)
        if meth is None or (meth, i) not in self.appliers:
            return None
        if c.keywords and any(k.arg is not None for k in c.keywords) and self.appliers[(meth, i)] != 'varargs':
            return None
        # what the enclosing wrapper passes on after the primitive: its own *args/**kwargs, or its own parameters in order
        rest = ast.Call(func=c.func, args=c.args[:i] + c.args[i + 1:], keywords=c.keywords)
        if self.appliers[(meth, i)] == 'varargs':
            if U.forwards_varargs(fn, rest):
                return 'varargs'
            if U.forwards_params(fn, rest):
                return 'params'
        return ''

    def _passed_to_unknown_method(self, m: Model, fn: U.FuncNode, r: Ref) -> bool:
        hit = self._enclosing_call(fn, r)
        return hit is not None and _self_method(hit[0]) in m.inst

    def wrappers(self) -> T.Dict[str, T.List[Site]]:
        out: T.Dict[str, T.List[Site]] = {}
        bad = {s.method for s in self.sites if not s.guarded}
        for s in self.sites:
            if s.method not in bad and s.method in self.thin:
                out.setdefault(s.method, []).append(s)
        return out


def _guarded_appliers(m: Model) -> T.Dict[T.Tuple[str, int], str]:
    """(Installer method, positional index of a callable parameter) -> 'varargs' | '' for helpers of the form
    `def _unless_dry_run(self, func, *args, **kwargs): if not self.dry_run: func(*args, **kwargs)`: the parameter is only ever
    called, and every such call is unreachable when self.dry_run holds."""
    out: T.Dict[T.Tuple[str, int], str] = {}
    for name, fn in m.inst.items():
        ps = U.params_of(fn)
        for i, p_ in enumerate(ps):
            uses = [n for n in walk_no_nested(fn) if isinstance(n, ast.Name) and n.id == p_ and isinstance(n.ctx, ast.Load)]
            calls = [c for c in calls_in(fn) if isinstance(c.func, ast.Name) and c.func.id == p_]
            if not calls or len(uses) != len(calls) or any(isinstance(n, ast.Name) and n.id == p_ and isinstance(n.ctx, ast.Store) for n in ast.walk(fn)):
                continue
            cfg = CFG(fn)
            reach = U.feasible_reach(cfg, [cfg.entry], {'self.dry_run': True}, U.single_def_aliases(fn))
            if any(n.id in reach for c in calls for n in cfg.node_containing(c)):
                continue
            va, kw = fn.args.vararg, fn.args.kwarg
            shape = ''
            if len(ps) == i + 1 and va is not None and all(
                    len(c.args) == 1 and isinstance(c.args[0], ast.Starred) and norm(c.args[0].value) == va.arg
                    and ((kw is None and not c.keywords) or (kw is not None and len(c.keywords) == 1 and c.keywords[0].arg is None and norm(c.keywords[0].value) == kw.arg))
                    for c in calls):
                shape = 'varargs'
            out[(name, i)] = shape
    return out


def _predicate_facts(m: Model, facts_for: T.Callable[[T.List[str]], T.Dict[str, bool]], args: T.Sequence[str]) -> T.Dict[str, bool]:
    """Facts about one-line predicate methods of Installer (`def _dry(self): return self.dry_run`,
    `def _wanted(self, x): return self.should_install(x)`): the value of `self.<m>(<args>)` given the base facts."""
    out: T.Dict[str, bool] = {}
    for name, fn in m.inst.items():
        body = [st for st in fn.body if not (isinstance(st, ast.Expr) and isinstance(st.value, ast.Constant))]
        ps = U.params_of(fn)
        if len(body) != 1 or not isinstance(body[0], ast.Return) or body[0].value is None or len(ps) != len(args):
            continue
        v = U.tv(body[0].value, facts_for(ps))
        if v is not None:
            out[f'self.{name}({", ".join(args)})'] = v
    return out


_MODELS: T.Dict[int, Model] = {}


def _model(ctx: RuleCtx) -> Model:
    """One Model per analysed minstall.py Module object (shared by the eight rules of a run)."""
    mod = U.nmodule(ctx.repo, MIN)
    m = _MODELS.get(id(mod))
    if m is None or m.mod is not mod:
        if len(_MODELS) > 8:
            _MODELS.clear()
        m = Model(mod)
        _MODELS[id(mod)] = m
    return m


def _uninstall_log_path(ctx: RuleCtx) -> str:
    """The path scripts/uninstall.run hands to do_uninstall (found by role: the argument of that call), folded."""
    um = U.nmodule(ctx.repo, UNI)
    rcalls = [c for c in calls_in(um.func('run')) if isinstance(c.func, ast.Name) and c.func.id == 'do_uninstall']
    if len(rcalls) != 1 or len(rcalls[0].args) + len(rcalls[0].keywords) != 1:
        raise Undecided('uninstall.run: the call of do_uninstall was not found')
    ra_ = rcalls[0].args[0] if rcalls[0].args else rcalls[0].keywords[0].value
    if isinstance(ra_, ast.Constant) and isinstance(ra_.value, str):
        return posixpath.normpath(ra_.value)
    if isinstance(ra_, ast.Name):
        return posixpath.normpath(str(fold_const(ctx.repo, um, ra_.id)))
    raise Undecided(f'uninstall.run: log path `{short(ra_)}` is not a constant')


def _module_single_bindings(mod: Module) -> T.Dict[str, ast.AST]:
    """Module-level names with exactly one binding in the whole module (`NAME = <expr>` at top level; never stored, deleted, declared
    `global`, or used as a parameter / import alias anywhere else): the closed-world reading of a hoisted constant."""
    counts: T.Dict[str, int] = {}
    for n in ast.walk(mod.tree):
        if isinstance(n, ast.Name) and isinstance(n.ctx, (ast.Store, ast.Del)):
            counts[n.id] = counts.get(n.id, 0) + 1
        elif isinstance(n, ast.Global):
            for g in n.names:
                counts[g] = counts.get(g, 0) + 2
        elif isinstance(n, ast.alias):
            nm = (n.asname or n.name).split('.')[0]
            counts[nm] = counts.get(nm, 0) + 2
        elif isinstance(n, (ast.FunctionDef, ast.AsyncFunctionDef, ast.ClassDef)) and n in mod.tree.body:
            counts[n.name] = counts.get(n.name, 0) + 2
    out: T.Dict[str, ast.AST] = {}
    for st in mod.tree.body:
        tg = st.targets[0] if isinstance(st, ast.Assign) and len(st.targets) == 1 else (st.target if isinstance(st, ast.AnnAssign) else None)
        val = getattr(st, 'value', None)
        if isinstance(tg, ast.Name) and val is not None and counts.get(tg.id, 0) == 1:
            out[tg.id] = val
    return out


def _fold_path(fn: T.Optional[U.FuncNode], e: ast.AST, depth: int = 0, mod: T.Optional[Module] = None) -> str:
    """Constant folding of a path expression built from literals, single-binding locals, single-binding module-level constants
    (folded in the module scope), os.path.join/dirname/normpath."""
    if depth > 8:
        raise Undecided('path folding too deep')
    if isinstance(e, ast.Constant) and isinstance(e.value, str):
        return e.value
    if isinstance(e, ast.Name):
        if fn is not None:
            al = U.single_def_aliases(fn)
            if e.id in al:
                return _fold_path(fn, al[e.id], depth + 1, mod)
            local = {n.id for n in walk_no_nested(fn) if isinstance(n, ast.Name) and isinstance(n.ctx, (ast.Store, ast.Del))} | \
                {a.arg for a in fn.args.posonlyargs + fn.args.args + fn.args.kwonlyargs}
            if e.id in local or mod is None:
                raise Undecided(f'path folding: `{e.id}` is not a single-binding local of {fn.name}')
        if mod is not None:
            glob = _module_single_bindings(mod)
            if e.id in glob:
                return _fold_path(None, glob[e.id], depth + 1, mod)
        raise Undecided(f'path folding: `{e.id}` is neither a single-binding local nor a single-binding module constant')
    if isinstance(e, ast.Call) and not e.keywords:
        f = norm(e.func)
        args = [_fold_path(fn, a, depth + 1, mod) for a in e.args]
        if f == 'os.path.join' and args:
            return posixpath.join(*args)
        if f == 'os.path.dirname' and len(args) == 1:
            return posixpath.dirname(args[0])
        if f == 'os.path.normpath' and len(args) == 1:
            return posixpath.normpath(args[0])
    raise Undecided(f'path folding: {short(e)}')


# =============================================================================================
# R1 dry-run wrappers

R1_EXAMPLE = '''
import os, shutil
def set_mode(path, mode):
    os.chmod(path, mode)
class DirMaker:
    def __init__(self, lf, makedirs):
        self.makedirs_impl = makedirs
class Installer:
    def __init__(self, options, lf):
        self.dry_run = options.dry_run
    def remove(self, *args, **kwargs):
        if not self.dry_run:
            os.remove(*args, **kwargs)
    def leaky(self, p):
        shutil.rmtree(p)
    def leaky2(self, p):
        if self.dry_run:
            print(p)
        set_mode(p, 0)
'''


def _r1_problems(m: Model) -> T.List[T.Tuple[str, Ref]]:
    return [(f'Installer.{s.method}', s.ref) for s in m.dry.sites if not s.guarded]


def r1(ctx: RuleCtx) -> None:
    # built-in positive example: the scan must flag exactly the two leaky methods
    ex = Model(U.synthetic_module('example/minstall.py', R1_EXAMPLE))
    got = sorted((f, r.name) for f, r in _r1_problems(ex))
    if got != [('Installer.leaky', 'shutil.rmtree'), ('Installer.leaky2', 'minstall:set_mode')] or list(ex.dry.wrappers()) != ['remove']:
        raise AnalysisError(f'C11.R1 built-in positive example not recognised: {got}')
    ctx.ok('built-in example: unguarded shutil.rmtree and unguarded module-level set_mode are flagged, guarded os.remove is a wrapper', nontrivial=False)

    m = _model(ctx)
    mod = m.mod
    for s in m.dry.sites:
        if not s.guarded:
            ctx.violation(mod, f'Installer.{s.method}', s.ref.call or s.ref.node,
                          f'`{s.ref.name}` is reachable when self.dry_run is true: --dry-run would modify the file system '
                          f'(every mutating call must sit in a wrapper under `if not self.dry_run`)', s.ref.node)
    wr = m.dry.wrappers()
    for w, sites in wr.items():
        prims = sorted({s.ref.name for s in sites})
        fw = all(s.forwards for s in sites)
        ctx.require(fw, f'wrapper Installer.{w}: {", ".join(prims)} only reachable when not self.dry_run; arguments forwarded unchanged',
                    mod, f'Installer.{w}', sites[0].ref.call or sites[0].ref.node,
                    f'wrapper Installer.{w} does not forward its own arguments unchanged to {prims[0]} (callers\' argument positions would no longer mean what they say)')
    ctx.floor('dry-run wrapper methods of Installer', len(wr), 1)
    for f, p in m.dry.process:
        ctx.note(f'process-state primitive (not a file-system write, not subject to the dry-run rule): {p} in {f}')
    for t in m.dry.optin:
        ctx.note(t)

    # who may write self.dry_run
    writes = []
    for q, fn in mod.funcs().items():
        for n in ast.walk(fn):
            tg: T.List[ast.AST] = []
            if isinstance(n, ast.Assign):
                tg = list(n.targets)
            elif isinstance(n, (ast.AugAssign, ast.AnnAssign)):
                tg = [n.target]
            for t in tg:
                for x in ast.walk(t):
                    if isinstance(x, ast.Attribute) and x.attr == 'dry_run' and isinstance(x.ctx, ast.Store):
                        writes.append((q, n))
    init = mod.func('Installer.__init__')
    ps = U.params_of(init)
    ok = len(writes) >= 1 and all(q == 'Installer.__init__' and isinstance(n, ast.Assign) and (attr_chain(n.value) or '').split('.')[0] in ps
                                  and (attr_chain(n.value) or '').endswith('.dry_run') for q, n in writes)
    ctx.require(ok, 'self.dry_run is written only in Installer.__init__, from the parsed options', mod,
                writes[0][0] if writes else 'Installer.__init__', writes[-1][1] if writes else init,
                'self.dry_run is assigned outside Installer.__init__ or not from options.dry_run: the wrappers\' guard no longer reflects --dry-run')

    # DirMaker: no own mutator, mutates only through the callable it was constructed with, which is the makedirs wrapper
    for name, fn in m.dm.items():
        refs = [r for r in U.effect_refs(mod, fn, local_mutating=set(m.mut), strict_meson=True) if r.cls == 'fs']
        for r in refs:
            ctx.violation(mod, f'DirMaker.{name}', r.call or r.node, f'DirMaker.{name} calls `{r.name}` directly: directories would be created in --dry-run mode', r.node)
        if not refs:
            ctx.ok(f'DirMaker.{name}: no direct mutator')
    impl = _dirmaker_impl(mod, m)
    ctors = [c for q, fn in mod.funcs().items() for c in calls_in(fn) if isinstance(c.func, ast.Name) and c.func.id == 'DirMaker']
    ctx.floor('DirMaker construction sites', len(ctors), 1)
    dminit = mod.func('DirMaker.__init__')
    for c in ctors:
        b = U.bind_args(c, dminit)
        a = b.get(impl.param)
        ch = attr_chain(a) if a is not None else None
        w = ch.split('.', 1)[1] if ch and ch.startswith('self.') else None
        q = mod.enclosing_func(c) or '<module>'
        ok = w in wr and {s.ref.name for s in wr[w]} <= U.DIR_CREATORS and q.startswith('Installer.')
        ctx.require(ok, f'{q}: DirMaker is constructed with the dry-run wrapper self.{w}', mod, q, c,
                    f'DirMaker is constructed with `{short(a)}`, which is not a dry-run wrapper around os.makedirs: directories would be created in --dry-run mode')

    # other classes / module level / run()
    for cname, cnode in mod.classes().items():
        if cname in ('Installer', 'DirMaker') or '.' in cname:
            continue
        for r in U.effect_refs(mod, cnode, local_mutating=set(m.mut)):
            if r.cls == 'fs':
                ctx.violation(mod, cname, r.call or r.node, f'class {cname} references mutator `{r.name}` outside the Installer wrappers', r.node)
    toplevel = [r for st in mod.tree.body if not isinstance(st, (ast.FunctionDef, ast.AsyncFunctionDef, ast.ClassDef))
                for r in U.effect_refs(mod, st, local_mutating=set(m.mut)) if r.cls == 'fs']
    ctx.require(not toplevel, 'no mutator at module level of minstall.py', mod, '<module>', toplevel[0].node if toplevel else 'none',
                f'module-level statement references `{toplevel[0].name if toplevel else ""}`')
    run = mod.func('run')
    runrefs = [r for r in U.effect_refs(mod, run, local_mutating=set(m.mut)) if r.cls == 'fs']
    logs = 0
    for r in runrefs:
        if r.name.startswith('open:') and r.call is not None and r.call.args:
            p = posixpath.normpath(_fold_path(run, r.call.args[0], mod=mod))
            want = _uninstall_log_path(ctx)
            logs += 1
            ctx.require(p == want, f'run: the only file opened for writing is the install log `{p}`', mod, 'run', r.call,
                        f'run() opens `{p}` for writing; the only file install may write outside DESTDIR is the log `{want}` that uninstall reads')
        elif r.name == 'minstall:rebuild_all':
            ctx.ok('run: rebuild_all (runs the build, not the install) is the only other mutating callee')
        else:
            ctx.violation(mod, 'run', r.call or r.node, f'run() references `{r.name}`: a write outside the Installer wrappers (neither the log nor the rebuild)', r.node)
    ctx.floor('log open in run()', logs, 1)
    for q, refs in m.mut.items():
        if q in ('run', 'rebuild_all'):
            continue
        for r in refs:
            if r.name == 'minstall:rebuild_all':
                ctx.violation(mod, q, r.call or r.node, f'{q} references rebuild_all', r.node)
    ctx.note('module-level mutating helpers (closure): ' + ', '.join(sorted(m.mut)))


class _Impl(T.NamedTuple):
    attr: str      # 'makedirs_impl'
    param: str     # 'makedirs'


def _dirmaker_impl(mod: Module, m: Model) -> _Impl:
    """The attribute of DirMaker that holds the injected makedirs callable and the __init__ parameter it comes from."""
    mk = mod.func('DirMaker.makedirs')
    init = mod.func('DirMaker.__init__')
    ps = U.params_of(init)
    cands = []
    for c in calls_in(mk):
        ch = attr_chain(c.func)
        if ch and ch.startswith('self.') and ch.count('.') == 1 and ch.split('.')[1] not in m.dm:
            cands.append((ch.split('.')[1], c))
    attrs = {a for a, _ in cands}
    if len(attrs) != 1:
        raise Undecided(f'DirMaker.makedirs: expected one injected callable, found {sorted(attrs)}')
    attr = attrs.pop()
    srcs = []
    for q, fn in mod.funcs().items():
        for n in ast.walk(fn):
            if isinstance(n, ast.Assign):
                for t in n.targets:
                    if isinstance(t, ast.Attribute) and t.attr == attr:
                        srcs.append((q, n.value))
    if len(srcs) != 1 or srcs[0][0] != 'DirMaker.__init__' or not isinstance(srcs[0][1], ast.Name) or srcs[0][1].id not in ps:
        raise Undecided(f'DirMaker.{attr} is not bound exactly once, in __init__, from a parameter')
    return _Impl(attr, srcs[0][1].id)


# =============================================================================================
# R2 DESTDIR rooting

class Sink(T.NamedTuple):
    func: str
    call: ast.Call
    expr: ast.AST
    label: str
    kind: str


class Summary:
    def __init__(self, q: str, fn: U.FuncNode):
        self.q = q
        self.fn = fn
        self.demands: T.Set[Demand] = set()
        self.sinks: T.List[T.Tuple[Sink, T.Set[Demand]]] = []
        self.problems: T.List[T.Tuple[Sink, NotRooted]] = []


class RootingAnalysis:
    def __init__(self, m: Model):
        self.m = m
        self.mod = m.mod
        self.wr = m.dry.wrappers()
        self.impl = _dirmaker_impl(m.mod, m)
        self.rooters = {'get_destdir_path': 'get_destdir_path', 'destdir_join': 'destdir_join'}
        self.funcs: T.Dict[str, U.FuncNode] = {}
        for n, fn in m.inst.items():
            if n not in self.wr:
                self.funcs[f'Installer.{n}'] = fn
        for n, fn in m.dm.items():
            self.funcs[f'DirMaker.{n}'] = fn
        for n in m.mut:
            if n not in ('run', 'rebuild_all'):
                self.funcs[n] = m.top[n]
        self.sums: T.Dict[str, Summary] = {q: Summary(q, fn) for q, fn in self.funcs.items()}
        for _ in range(8):
            before = {q: set(s.demands) for q, s in self.sums.items()}
            for q, fn in self.funcs.items():
                self.sums[q] = self._analyse(q, fn)
            if before == {q: s.demands for q, s in self.sums.items()}:
                break
        else:
            raise Undecided('rootedness demands do not stabilise')

    # -- destination expressions of one call ------------------------------------------------
    def _prim_exprs(self, call: ast.Call, prim: str, skip_self: bool = False) -> T.List[T.Tuple[ast.AST, str]]:
        if prim.startswith('minstall:'):
            name = prim.split(':', 1)[1]
            s = self.sums.get(name)
            if s is None:
                return []
            b = U.bind_args(call, s.fn)
            return [(b[p], f'{name}({p}=)') for p, k in sorted(s.demands) if k == 'rooted' and p in b]
        out = []
        table = [(0, 'file')] if prim.startswith('open:') else U.MUTATORS.get(prim, [])
        for pos, kw in table:
            if any(isinstance(a, ast.Starred) for a in call.args[:pos + 1]):
                raise Undecided(f'star-argument before a destination position: {short(call)}')
            if pos < len(call.args):
                out.append((call.args[pos], f'{prim.split(".")[-1]}({kw}=)'))
            else:
                v = kwarg(call, kw)
                if v is not None:
                    out.append((v, f'{prim.split(".")[-1]}({kw}=)'))
        return out

    def dest_exprs(self, q: str, call: ast.Call) -> T.List[T.Tuple[ast.AST, str, str]]:
        owner = q.split('.')[0] if '.' in q else ''
        ch = attr_chain(call.func)
        if ch is None:
            return []
        out: T.List[T.Tuple[ast.AST, str, str]] = []
        if ch.startswith('self.') and ch.count('.') == 1:
            meth = ch.split('.')[1]
            if owner == 'Installer' and meth in self.wr:
                for s in self.wr[meth]:
                    if s.ref.name.endswith('Popen_safe'):
                        if not call.args:
                            raise Undecided(f'{q}: Popen_safe without positional command: {short(call)}')
                        els = _command_operands(call.args[0], Flow(self.funcs[q], nested=False).defs if q in self.funcs else None)
                        out += [(e, 'Popen_safe(file operand)', 'rooted') for e in els]
                    elif s.forwards == 'varargs':
                        out += [(e, f'self.{meth}->{lab}', 'rooted') for e, lab in self._prim_exprs(call, s.ref.name)]
                    elif U.MUTATORS.get(s.ref.name) or s.ref.name.startswith('open:') or (s.ref.name.startswith('minstall:') and self.sums.get(s.ref.name.split(':')[1]) and self.sums[s.ref.name.split(':')[1]].demands):
                        if s.forwards != 'params':
                            raise Undecided(f'wrapper Installer.{meth} re-arranges its arguments; destination positions unknown')
                        out += [(e, f'self.{meth}->{lab}', 'rooted') for e, lab in self._prim_exprs(call, s.ref.name)]
                return out
            if owner == 'Installer' and f'Installer.{meth}' in self.sums:
                s2 = self.sums[f'Installer.{meth}']
                b = U.bind_args(call, s2.fn)
                return [(b[p], f'self.{meth}({p}=)', k) for p, k in sorted(s2.demands) if p in b and not p.startswith('<')]
            if owner == 'DirMaker' and meth == self.impl.attr:
                return [(e, f'makedirs_impl->{lab}', 'rooted') for e, lab in self._prim_exprs(call, 'os.makedirs')]
            return []
        if '.' not in ch:
            if ch in self.sums and ch in self.m.mut:
                return [(e, lab, 'rooted') for e, lab in self._prim_exprs(call, 'minstall:' + ch)]
            d = U.dotted(self.mod, call.func)
            if d in U.MUTATORS:
                return [(e, lab, 'rooted') for e, lab in self._prim_exprs(call, d)]
            return []
        d = U.dotted(self.mod, call.func)
        if d in U.MUTATORS:
            return [(e, lab, 'rooted') for e, lab in self._prim_exprs(call, d)]
        head, _, meth = ch.rpartition('.')
        if '.' not in head and head not in ('self', 'os', 'shutil') and f'DirMaker.{meth}' in self.sums and meth != '__init__' \
                and meth in self.m.dm and head not in U.imports(self.mod):
            # a DirMaker handed around as a value (`dm`, `dirmaker`)
            s3 = self.sums[f'DirMaker.{meth}']
            if s3.demands:
                b = U.bind_args(call, s3.fn)
                return [(b[p], f'DirMaker.{meth}({p}=)', k) for p, k in sorted(s3.demands) if p in b]
        return []

    def _analyse(self, q: str, fn: U.FuncNode) -> Summary:
        s = Summary(q, fn)
        rt = Rooting(self.mod, fn, self.rooters)
        for call in calls_in(fn):
            for expr, label, kind in self.dest_exprs(q, call):
                sk = Sink(q, call, expr, label, kind)
                try:
                    dem = rt.need(expr) if kind == 'rooted' else rt.destdir(expr)
                except NotRooted as e:
                    s.problems.append((sk, e))
                    continue
                s.sinks.append((sk, dem))
                s.demands |= dem
        return s


def _command_operands(e: ast.AST, defs: T.Optional[T.Dict[str, T.List[ast.AST]]] = None) -> T.List[ast.AST]:
    """File operands of a command line built as `prefix + ['-x', path]`: the non-constant elements of list displays, also when a
    part is a local all of whose bindings are list displays (`args = [...] if c else [...]; prefix + args`)."""
    out: T.List[ast.AST] = []
    lists = 0

    def rec(x: ast.AST, depth: int = 0) -> None:
        nonlocal lists
        if isinstance(x, ast.BinOp) and isinstance(x.op, ast.Add):
            rec(x.left, depth)
            rec(x.right, depth)
        elif isinstance(x, ast.List):
            lists += 1
            out.extend(el for el in x.elts if not isinstance(el, ast.Constant))
        elif isinstance(x, ast.IfExp):
            rec(x.body, depth)
            rec(x.orelse, depth)
        elif isinstance(x, ast.Name):
            ds = (defs or {}).get(x.id, [])
            if ds and depth < 3 and all(isinstance(d_, (ast.List, ast.IfExp, ast.BinOp)) for d_ in ds):
                for d_ in ds:
                    rec(d_, depth + 1)
            # otherwise: the command prefix (strip binary)
        else:
            raise Undecided(f'command line shape not understood: {short(x)}')
    rec(e)
    if not lists:
        raise Undecided(f'command line without a list display: {short(e)}')
    return out


R2_EXAMPLE = '''
import os
def get_destdir_path(destdir, fullprefix, path):
    return path
class DirMaker:
    def __init__(self, lf, makedirs):
        self.makedirs_impl = makedirs
    def makedirs(self, path, exist_ok=False):
        self.makedirs_impl(path, exist_ok=exist_ok)
class Installer:
    def copy2(self, *args, **kwargs):
        if not self.dry_run:
            shutil.copy2(*args, **kwargs)
    def install_good(self, d, dm, destdir, fullprefix):
        for i in d.data:
            out = get_destdir_path(destdir, fullprefix, i.install_path)
            self.copy2(i.path, out)
    def install_bad(self, d, dm, destdir, fullprefix):
        for i in d.data:
            self.copy2(i.path, os.path.join(d.prefix, i.install_path))
'''


def r2(ctx: RuleCtx) -> None:
    ex = RootingAnalysis(Model(U.synthetic_module('example/minstall.py', 'import shutil\n' + R2_EXAMPLE)))
    bad = [(s.func, norm(s.expr)) for sm in ex.sums.values() for s, _ in sm.problems]
    good = [s.func for sm in ex.sums.values() for s, _ in sm.sinks]
    if bad != [('Installer.install_bad', 'os.path.join(d.prefix, i.install_path)')] or 'Installer.install_good' not in good:
        raise AnalysisError(f'C11.R2 built-in positive example not recognised: {bad} / {good}')
    ctx.ok('built-in example: a copy to os.path.join(d.prefix, ...) is flagged, a copy to get_destdir_path(...) is rooted', nontrivial=False)

    m = _model(ctx)
    mod = m.mod
    ra = RootingAnalysis(m)
    n = 0
    for q, sm in ra.sums.items():
        for sk, err in sm.problems:
            ctx.violation(mod, q, sk.call, f'destination `{short(sk.expr, 70)}` of {sk.label} is not rooted under DESTDIR: {err.why} '
                                           f'(e.g. with DESTDIR=/tmp/d the path is used as is and the write lands outside /tmp/d)', sk.call)
        for sk, dem in sm.sinks:
            n += 1
            via = ', '.join(sorted(f'{k} parameter {p}' for p, k in dem)) or 'get_destdir_path/destdir_join'
            ctx.ok(f'{q}: {sk.label} `{short(sk.expr, 50)}` rooted via {via}')
    ctx.floor('destination arguments of mutating calls', n, 1)

    # entry points: demands must end at do_install's own DESTDIR value
    called: T.Dict[str, int] = {}
    for q, fn in mod.funcs().items():
        for c in calls_in(fn):
            ch = attr_chain(c.func)
            if ch and ch.startswith('self.') and q.startswith('Installer.'):
                called[f'Installer.{ch.split(".", 1)[1]}'] = called.get(f'Installer.{ch.split(".", 1)[1]}', 0) + 1
    for q, sm in ra.sums.items():
        if not q.startswith('Installer.'):
            continue
        if called.get(q):
            continue
        # an entry point (not called from inside the class)
        for p, k in sorted(sm.demands):
            if p.startswith('<local>') and k == 'destdir':
                name = p[len('<local>'):]
                org = _deep_origins(m, sm.fn, ast.Name(id=name, ctx=ast.Load()))
                wrong = sorted(o for o in org if (o.startswith('attr:') and o.endswith('.prefix')) or o in ('call:destdir_join', 'call:get_destdir_path'))
                ok = 'attr:self.options.destdir' in org and 'call:os.environ.get' in org and not wrong
                opaque = sorted(o for o in org if o.startswith('call:') and o not in ('call:os.environ.get', 'call:os.path.join', 'call:load_install_data', 'call:destdir_join',
                                                                                   'call:get_destdir_path', 'call:path_has_root', 'call:os.path.abspath', 'call:os.path.normpath'))
                if not ok and not wrong and opaque:
                    raise Undecided(f'{q}: `{name}` (the DESTDIR handed to the installers) comes from {opaque}, which the rule cannot see into')
                ctx.require(ok, f'{q}: `{name}` handed to the installers as DESTDIR originates from --destdir / $DESTDIR', mod, q, f'{name} as DESTDIR',
                            f'`{name}` is passed where the callees expect the DESTDIR value but it does not originate from options.destdir / os.environ (origins: {sorted(org)})')
            else:
                raise Undecided(f'{q} is not called inside Installer (an entry point the rule does not know), yet its parameter `{p}` must already be {k}')
    if 'Installer.do_install' not in ra.sums or not any(p.startswith('<local>') for p, _ in ra.sums['Installer.do_install'].demands):
        raise Undecided('Installer.do_install does not hand a local DESTDIR value to the installers')

    # get_destdir_path: absolute -> destdir_join(destdir, path); relative -> join(fullprefix, path)
    g = mod.func('get_destdir_path')
    tab = tables.extract(g, effects=_assign_eff, name='get_destdir_path')
    hasroot = Atom('truth', ('path_has_root(ARG3)',))
    unknown = [a for a in tab.atoms() if a != hasroot]
    if unknown or hasroot not in tab.atoms():
        raise Undecided(f'get_destdir_path: atoms {tab.atoms()} (expected the single test path_has_root(path))')
    imps = U.imports(mod)
    if not imps.get('path_has_root', '').endswith('.path_has_root') or imps.get('destdir_join') != 'mesonbuild.scripts.destdir_join':
        raise Undecided('path_has_root / destdir_join are not the imported mesonlib / scripts functions')
    for val, want in ((True, 'destdir_join(ARG1, ARG3)'), (False, 'os.path.join(ARG2, ARG3)')):
        rows = tab.fire({hasroot: val})
        if len(rows) != 1:
            raise Undecided(f'get_destdir_path: {len(rows)} rows for path_has_root={val}')
        got = _returned(rows[0])
        try:
            ge = ast.parse(got, mode='eval').body
        except SyntaxError:
            ge = None
        if val and isinstance(ge, ast.Call) and norm(ge.func) == 'destdir_join':
            djs = Rooting(mod, g, {}).sig('destdir_join', ('d1', 'd2'))
            b0, b1 = U.call_arg(ge, 0, djs[0]), U.call_arg(ge, 1, djs[1])
            if b0 is not None and b1 is not None and len(ge.args) + len(ge.keywords) == 2:
                got = f'destdir_join({norm(b0)}, {norm(b1)})'
        ctx.require(got == want, f'get_destdir_path: {"absolute" if val else "relative"} path -> {want}', mod, 'get_destdir_path',
                    rows[0].path.events[-1].node if rows[0].path.events else g,
                    f'for a{"n absolute" if val else " relative"} install path get_destdir_path yields `{got}`; it must be `{want}` '
                    f'({"an absolute path that is not re-rooted escapes DESTDIR" if val else "a relative path belongs under the DESTDIR-prefixed prefix"})')

    # destdir_join: empty destdir -> d2; else PurePath(d1, *PurePath(d2).parts[1:])  (the anchor of d2 is dropped)
    smod = U.nmodule(ctx.repo, SCR)
    dj = smod.func('destdir_join')
    tab2 = tables.extract(dj, effects=_assign_eff, name='destdir_join')
    empty = Atom('truth', ('ARG1',))
    if [a for a in tab2.atoms() if a != empty] or empty not in tab2.atoms():
        raise Undecided(f'destdir_join: atoms {tab2.atoms()} (expected the single test on d1)')
    r_empty, r_set = tab2.fire({empty: False}), tab2.fire({empty: True})
    if len(r_empty) != 1 or len(r_set) != 1:
        raise Undecided('destdir_join: rows')
    ctx.require(_returned(r_empty[0]) == 'ARG2', 'destdir_join: empty DESTDIR -> path unchanged', smod, 'destdir_join', dj,
                f'with an empty DESTDIR destdir_join returns `{_returned(r_empty[0])}` instead of the path')
    e = ast.parse(_returned(r_set[0]), mode='eval').body
    verdict = _anchor_dropped(e)
    if verdict is None:
        raise Undecided(f'destdir_join: result `{short(e)}` is not of the PurePath(d1, *PurePath(d2).parts[k:]) form')
    ctx.require(verdict == 'ok', 'destdir_join: DESTDIR first, anchor of the second path dropped (parts[1:])', smod, 'destdir_join', dj,
                f'destdir_join builds `{short(e)}`: {verdict} (e.g. destdir_join("/tmp/d", "/usr/lib") must be /tmp/d/usr/lib)')


def _deep_origins(m: Model, fn: U.FuncNode, e: ast.AST, depth: int = 2) -> T.Set[str]:
    """Flow origins of `e`, where a value returned by an Installer helper (`self._helper(...)`) is replaced by the origins of
    that helper's return expressions (two levels)."""
    org = Flow(fn, nested=False).origins(e)
    for _ in range(depth):
        calls = [o for o in org if o.startswith('call:self.') and o[len('call:self.'):] in m.inst]
        if not calls:
            break
        for o in calls:
            org.discard(o)
            h = m.inst[o[len('call:self.'):]]
            fl = Flow(h, nested=False)
            for st in walk_no_nested(h):
                if isinstance(st, ast.Return) and st.value is not None:
                    org |= {x for x in fl.origins(st.value) if not x.startswith('param:')}
    return org


def _assign_eff(st: ast.AST) -> T.Optional[str]:
    if isinstance(st, ast.Assign) and len(st.targets) == 1:
        return f'{norm(st.targets[0])} := {norm(st.value)}'
    if isinstance(st, ast.AugAssign):
        return f'{norm(st.target)} {norm(ast.BinOp(left=ast.Name(id="_"), op=st.op, right=ast.Name(id="_")))[2:-2].strip()}= {norm(st.value)}'
    if isinstance(st, ast.Expr) and isinstance(st.value, ast.Call):
        return 'call ' + norm(st.value)
    return None


def _returned(r: tables.Row) -> str:
    """Returned expression with the row's own assignments composed in (so `x = f(); return g(x)` reads g(f()), and a result
    local assigned several times on the path reads as its last value)."""
    if r.outcome[0] != 'return':
        return ' '.join(str(x) for x in r.outcome)
    try:
        tree = ast.parse(r.outcome[1], mode='eval').body
    except SyntaxError:
        return r.outcome[1]
    effs = [e for e in r.effects if not e.startswith('call ') and e.split(' ', 1)[0].isidentifier() and not e.startswith('ARG')]
    try:
        return norm(U.compose_assignments(effs, tree))
    except Undecided:
        return r.outcome[1]


def _anchor_dropped(e: ast.AST) -> T.Optional[str]:
    """'ok' | reason | None(unknown shape) for  str(PurePath(ARG1, *PurePath(ARG2).parts[1:]))."""
    if isinstance(e, ast.Call) and norm(e.func) in ('str', 'os.fspath') and len(e.args) == 1:
        e = e.args[0]
    if not (isinstance(e, ast.Call) and norm(e.func).endswith('PurePath') and len(e.args) == 2 and not e.keywords):
        return None
    a, b = e.args
    if not isinstance(b, ast.Starred):
        return None if not isinstance(a, ast.Starred) else 'DESTDIR is not the first component'
    sub = b.value
    if not (isinstance(sub, ast.Subscript) and isinstance(sub.slice, ast.Slice) and sub.slice.upper is None and sub.slice.step is None):
        if isinstance(sub, ast.Attribute) and sub.attr == 'parts':
            return 'the anchor of the second path is kept, so the join discards DESTDIR'
        return None
    base = sub.value
    if not (isinstance(base, ast.Attribute) and base.attr == 'parts' and isinstance(base.value, ast.Call) and norm(base.value.func).endswith('PurePath')
            and len(base.value.args) == 1):
        return None
    lo = sub.slice.lower
    lo_v = 0 if lo is None else (lo.value if isinstance(lo, ast.Constant) and isinstance(lo.value, int) else None)
    if lo_v is None:
        return None
    if norm(a) != 'ARG1' or norm(base.value.args[0]) != 'ARG2':
        return 'the operands are not (DESTDIR, path) in this order'
    if lo_v == 0:
        return 'the anchor of the second path is kept, so the join discards DESTDIR'
    if lo_v != 1:
        return f'parts[{lo_v}:] drops real path components'
    return 'ok'


class Rec:
    """Stand-in for RuleCtx when a rule core is run on a built-in example: collects instead of reporting."""

    def __init__(self) -> None:
        self.v: T.List[T.Tuple[str, str, str]] = []
        self.oks: T.List[str] = []

    def ok(self, what: str, nontrivial: bool = True) -> None:
        self.oks.append(what)

    def violation(self, mod: T.Any, function: str, construct: T.Any, message: str, node: T.Any = None, **kw: T.Any) -> None:
        self.v.append((function, norm(construct), message))

    def require(self, cond: bool, what: str, mod: T.Any, function: str, construct: T.Any, message: str, node: T.Any = None, **kw: T.Any) -> bool:
        if cond:
            self.ok(what)
        else:
            self.violation(mod, function, construct, message)
        return cond

    def floor(self, what: str, count: int, minimum: int) -> None:
        pass

    def note(self, text: str) -> None:
        pass


Ctx = T.Union[RuleCtx, Rec]

MODE_EXAMPLE = """
import os, shutil
def set_mode(path, mode, umask):
    os.chmod(path, 0)
def append_to_log(lf, line):
    lf.write(line)
class DirMaker:
    def __init__(self, lf, makedirs):
        self.makedirs_impl = makedirs
    def makedirs(self, path, exist_ok=False):
        self.makedirs_impl(path)
class Installer:
    def copy2(self, *args, **kwargs):
        if not self.dry_run:
            shutil.copy2(*args, **kwargs)
    def set_mode(self, *args, **kwargs):
        if not self.dry_run:
            set_mode(*args, **kwargs)
    def do_copyfile(self, from_file, to_file, makedirs=None):
        self.copy2(from_file, to_file)
        append_to_log(self.lf, to_file)
        return True
    def do_link(self, target, link):
        self.copy2(target, link)
        return True
    def do_install(self, f):
        self.install_a(d, dm, '', '')
        self.install_b(d, dm, '', '')
        self.install_c(d, dm, '', '')
    def install_a(self, d: InstallData, dm: DirMaker, destdir: str, fullprefix: str) -> None:
        for i in d.data:
            if self.do_copyfile(i.path, fullprefix):
                pass
            self.set_mode(fullprefix, i.install_mode, d.install_umask)
    def install_b(self, d: InstallData, dm: DirMaker, destdir: str, fullprefix: str) -> None:
        for i in d.man:
            self.set_mode(fullprefix, i.install_mode, d.install_umask)
            self.do_copyfile(i.path, fullprefix)
    def install_c(self, d: InstallData, dm: DirMaker, destdir: str, fullprefix: str) -> None:
        for i in d.headers:
            self.do_copyfile(i.path, fullprefix)
            if i.skip:
                continue
            self.set_mode(fullprefix, i.install_mode, d.install_umask)
"""


def _mode_example() -> 'Model':
    return Model(U.synthetic_module('example/minstall.py', MODE_EXAMPLE))


# =============================================================================================
# R3 filters and order

def _effectful(m: Model) -> T.Set[str]:
    """Installer methods that (transitively) reach a dry-run wrapper or a DirMaker."""
    wr = set(m.dry.wrappers())
    eff = set(wr) | {s_.method for s_ in m.dry.sites}
    changed = True
    while changed:
        changed = False
        for name, fn in m.inst.items():
            if name in eff:
                continue
            for c in calls_in(fn):
                if _self_method(c) in eff or _is_dirmaker_call(m, c):
                    eff.add(name)
                    changed = True
                    break
    return eff


def _self_method(c: ast.Call) -> T.Optional[str]:
    ch = attr_chain(c.func)
    if ch and ch.startswith('self.') and ch.count('.') == 1:
        return ch.split('.')[1]
    return None


def _is_dirmaker_call(m: Model, c: ast.Call) -> bool:
    ch = attr_chain(c.func)
    if not ch or ch.count('.') != 1:
        return False
    head, meth = ch.split('.')
    return head not in ('self', 'os', 'shutil', 'sys') and head not in U.imports(m.mod) and meth in m.dm and not meth.startswith('__')


PERM_PRIMS = {'minstall:set_mode', 'minstall:sanitize_permissions', 'minstall:set_chmod', 'minstall:set_chown', 'os.chmod', 'os.chown', 'shutil.chown'}


def _perm_wrappers(m: Model) -> T.Set[str]:
    """Permission wrappers, and Installer helpers whose only effects are calls to them (`def _finish(self, p, mode, um): self.set_mode(p, mode, um)`)."""
    perm = {w for w, sites in m.dry.wrappers().items() if {s.ref.name for s in sites} <= PERM_PRIMS}
    eff = _effectful(m)
    changed = True
    while changed:
        changed = False
        for name, fn in m.inst.items():
            if name in perm or name in m.dry.wrappers() or name not in eff:
                continue
            effs = [x for x in (_self_method(c) for c in calls_in(fn)) if x in eff]
            if effs and all(x in perm for x in effs) and not any(_is_dirmaker_call(m, c) for c in calls_in(fn)):
                perm.add(name)
                changed = True
    return perm


class Loop(T.NamedTuple):
    method: str
    fn: U.FuncNode
    loop: ast.For
    var: str
    coll: str


def _install_data_param(fn: U.FuncNode) -> T.Optional[str]:
    for a in fn.args.args:
        if a.annotation is not None and norm(a.annotation).strip('\'"') == 'InstallData':
            return a.arg
    return None


def _reached_methods(m: Model, start: str = 'do_install', depth: int = 3) -> T.List[str]:
    """Installer methods reached from do_install through self-calls (helpers it delegates to), in call order."""
    wr = m.dry.wrappers()
    seen: T.Dict[str, None] = {}
    frontier = [start]
    for _ in range(depth):
        nxt: T.List[str] = []
        for q in frontier:
            fn = m.inst.get(q)
            if fn is None:
                continue
            for c in calls_in(fn):
                x = _self_method(c)
                if x and x in m.inst and x not in wr and x not in seen and x != start:
                    seen[x] = None
                    nxt.append(x)
        frontier = nxt
    return list(seen)


def _per_kind_loops(m: Model) -> T.List[Loop]:
    """`for x in <InstallData param>.<collection>` loops of the methods do_install (or a helper it delegates to) calls."""
    m.mod.func('Installer.do_install')
    out: T.List[Loop] = []
    for name in _reached_methods(m):
        fn = m.inst.get(name)
        if fn is None:
            continue
        d = _install_data_param(fn)
        if d is None:
            continue
        for st in walk_no_nested(fn):
            if not isinstance(st, ast.For):
                continue
            it_, tg_ = st.iter, st.target
            if isinstance(it_, ast.Call) and isinstance(it_.func, ast.Name) and it_.func.id == 'enumerate' and it_.args and isinstance(tg_, ast.Tuple) and len(tg_.elts) == 2:
                it_, tg_ = it_.args[0], tg_.elts[1]
            if isinstance(it_, ast.Call) and isinstance(it_.func, ast.Name) and it_.func.id in ('list', 'tuple', 'sorted', 'reversed') and len(it_.args) == 1:
                it_ = it_.args[0]
            if isinstance(it_, ast.Attribute) and isinstance(it_.value, ast.Name) and it_.value.id == d and isinstance(tg_, ast.Name):
                out.append(Loop(name, fn, st, tg_.id, f'{d}.{it_.attr}'))
    return out


def _iter_node(cfg: CFG, loop: ast.AST) -> Node:
    ns = [n for n in cfg.stmt_nodes(loop) if n.kind == 'iter']
    if len(ns) != 1:
        raise Undecided(f'loop at line {getattr(loop, "lineno", 0)} has {len(ns)} heads on the CFG')
    return ns[0]


def _effect_nodes(m: Model, cfg: CFG, eff: T.Set[str], flags: T.Iterable[str] = ('did_install_something',)) -> T.Dict[int, T.List[str]]:
    out: T.Dict[int, T.List[str]] = {}
    for n in cfg.nodes:
        e = n.expr()
        if e is None:
            continue
        roots: T.List[ast.AST] = [e]
        if n.kind == 'iter':
            roots = [n.ast.iter]  # type: ignore[union-attr]
        for r in roots:
            for x in walk_no_nested(r):
                if isinstance(x, ast.Call):
                    sm = _self_method(x)
                    if sm in eff:
                        out.setdefault(n.id, []).append(f'self.{sm}')
                    elif _is_dirmaker_call(m, x):
                        out.setdefault(n.id, []).append(norm(x.func))
                    elif (U.dotted(m.mod, x.func) or '') in U.MUTATORS or (isinstance(x.func, ast.Name) and x.func.id in m.mut):
                        out.setdefault(n.id, []).append(norm(x.func))
            if n.kind == 'stmt' and isinstance(r, (ast.Assign, ast.AugAssign)):
                tg = r.targets if isinstance(r, ast.Assign) else [r.target]
                for t in tg:
                    ch = attr_chain(t)
                    if ch and ch.startswith('self.') and ch.split('.', 1)[1] in flags:
                        out.setdefault(n.id, []).append(ch)
    return out


R3_EXAMPLE = """
import os
class DirMaker:
    def __init__(self, lf, makedirs):
        self.makedirs_impl = makedirs
    def makedirs(self, path, exist_ok=False):
        self.makedirs_impl(path)
class Installer:
    def copy2(self, *args, **kwargs):
        if not self.dry_run:
            shutil.copy2(*args, **kwargs)
    def do_install(self, f):
        self.install_a(d, dm, '', '')
        self.install_b(d, dm, '', '')
    def install_a(self, d: InstallData, dm: DirMaker, destdir: str, fullprefix: str) -> None:
        for i in d.data:
            if not self.should_install(i):
                continue
            self.copy2(i.path, fullprefix)
    def install_b(self, d: InstallData, dm: DirMaker, destdir: str, fullprefix: str) -> None:
        for i in d.man:
            dm.makedirs(fullprefix)
            if not self.should_install(i):
                continue
            self.copy2(i.path, fullprefix)
"""


def _filter_leaks(m: Model) -> T.Tuple[T.List[T.Tuple[Loop, Node, T.List[str]]], T.List[T.Tuple[Loop, int]]]:
    eff = _effectful(m)
    leaks: T.List[T.Tuple[Loop, Node, T.List[str]]] = []
    good: T.List[T.Tuple[Loop, int]] = []
    for lp in _per_kind_loops(m):
        cfg = CFG(lp.fn)
        it = _iter_node(cfg, lp.loop)
        alias = U.single_def_aliases(lp.fn)
        en = _effect_nodes(m, cfg, eff)
        key = f'self.should_install({lp.var})'
        f_rej, f_acc = {key: False}, {key: True}
        f_rej.update(_predicate_facts(m, lambda ps: {f'self.should_install({ps[0]})': False}, [lp.var]))
        f_acc.update(_predicate_facts(m, lambda ps: {f'self.should_install({ps[0]})': True}, [lp.var]))
        rej = U.feasible_reach(cfg, [it], f_rej, alias, avoid=[it], skip_labels={'done'})
        acc = U.feasible_reach(cfg, [it], f_acc, alias, avoid=[it], skip_labels={'done'})
        body_ids = {n.id for n in cfg.nodes if n.ast is not None and lp.loop.lineno <= getattr(n.ast, 'lineno', 0) <= (lp.loop.end_lineno or 0)}
        bad = [cfg.nodes[i] for i in sorted(rej & set(en) & body_ids)]
        n_acc = len(acc & set(en) & body_ids)
        if not n_acc:
            if not (set(en) & body_ids):
                continue       # a loop over the collection that performs no effect at all (e.g. collecting failed scripts) is not an installer loop
            raise Undecided(f'Installer.{lp.method}: loop over {lp.coll} has no effect even for an accepted item')
        if bad:
            # a test of the item through some other Installer method the rule cannot summarise: not a proven leak
            for n in cfg.nodes:
                if n.kind == 'test' and n.id in body_ids:
                    for x in walk_no_nested(n.ast.test):   # type: ignore[union-attr]
                        if not isinstance(x, ast.Call) or _self_method(x) == 'should_install' or norm(x) in f_rej:
                            continue
                        if any(isinstance(a_, ast.Name) and a_.id == lp.var for a_ in list(x.args) + [k_.value for k_ in x.keywords]) \
                                and (U.dotted(m.mod, x.func) or '').split('.')[0] not in ('os', 'isinstance'):
                            raise Undecided(f'Installer.{lp.method}: items are also filtered through `{short(x)}`, which the rule cannot summarise')
        for b in bad:
            leaks.append((lp, b, en[b.id]))
        if not bad:
            good.append((lp, n_acc))
    return leaks, good


def r3a(ctx: RuleCtx) -> None:
    ex = Model(U.synthetic_module('example/minstall.py', 'import shutil\n' + R3_EXAMPLE))
    leaks, good = _filter_leaks(ex)
    if [(l.method, e) for l, _, e in leaks] != [('install_b', ['dm.makedirs'])] or [l.method for l, _ in good] != ['install_a']:
        raise AnalysisError(f'C11.R3a built-in example not recognised: {leaks} {good}')
    ctx.ok('built-in example: an effect before the should_install guard is flagged, a guarded loop is clean', nontrivial=False)

    m = _model(ctx)
    mod = m.mod
    leaks, good = _filter_leaks(m)
    for lp, node, effs in leaks:
        ctx.violation(mod, f'Installer.{lp.method}', node.expr() or lp.loop,
                      f'in the loop over {lp.coll} the effect {", ".join(effs)} is reachable for an item that should_install({lp.var}) rejects: '
                      f'--tags / --skip-subprojects would not filter it (e.g. `meson install --tags runtime` still performs it for a devel-tagged item)', node.ast)
    for lp, n in good:
        ctx.ok(f'Installer.{lp.method}: loop over {lp.coll}: all {n} effect statements unreachable when should_install({lp.var}) is false')
    ctx.floor('per-kind loops guarded by should_install', len(good) + len({id(l.loop) for l, _, _ in leaks}), 1)

    # should_install == reference filter on every world
    fn = mod.func('Installer.should_install')
    tab = tables.extract(fn, bool_returns=True, effects=_assign_eff, name='should_install')
    sem = {
        Atom('truth', ('ARG1.subproject',)): 'sub',
        Atom('in', ('ARG1.subproject', 'self.skip_subprojects')): 'sub_listed',
        Atom('in', ("'*'", 'self.skip_subprojects')): 'star',
        Atom('truth', ('self.tags',)): 'tags',
        Atom('in', ('ARG1.tag', 'self.tags')): 'tag_listed',
    }
    unknown = [a for a in tab.atoms() if a not in sem]
    if unknown:
        raise Undecided(f'should_install: atoms outside the reference vocabulary: {unknown}')
    bad: T.Dict[str, str] = {}
    nw = 0
    for w in tab.worlds(list(sem)):
        v = {k: w[a] for a, k in sem.items()}
        want = not (v['sub'] and (v['sub_listed'] or v['star'])) and not (v['tags'] and not v['tag_listed'])
        rows = tab.fire(w)
        nw += 1
        if len(rows) != 1:
            raise Undecided(f'should_install: {len(rows)} rows fire in world {v}')
        oc = ('return', _returned(rows[0])) if rows[0].outcome[0] == 'return' else rows[0].outcome
        if oc[0] == 'return' and oc[1] not in ('True', 'False'):
            # the answer is itself a test over the same atoms (`return d.tag in self.tags`): decided by the world
            tvv = U.tv(ast.parse(oc[1], mode='eval').body, {repr(a_): x_ for a_, x_ in w.items()})
            if tvv is not None:
                oc = ('return', str(tvv))
        got = oc == ('return', 'True')
        if oc not in (('return', 'True'), ('return', 'False')):
            raise Undecided(f'should_install: non-boolean outcome {oc}')
        if got != want:
            bad.setdefault(repr(rows[0]), f'row `{rows[0]!r}` answers {got} where the documented filter answers {want} '
                                          f'(subproject set={v["sub"]}, listed in --skip-subprojects={v["sub_listed"]}, "*" given={v["star"]}, '
                                          f'--tags given={v["tags"]}, tag listed={v["tag_listed"]})')
    for k, msg in bad.items():
        ctx.violation(mod, 'Installer.should_install', k, msg, fn)
    if not bad:
        ctx.ok(f'should_install: {len(tab.rows)} rows equal the reference filter (skip-subprojects incl. "*", tags) on {nw} worlds')

    # who may write the filter state
    for attr in ('tags', 'skip_subprojects'):
        writers = sorted({q for q, f in mod.funcs().items() for n in ast.walk(f)
                          if isinstance(n, ast.Attribute) and n.attr == attr and isinstance(n.ctx, ast.Store) and norm(n.value) == 'self'
                          and q.startswith('Installer.')})
        ctx.require(writers == ['Installer.__init__'], f'self.{attr} is written only in Installer.__init__', mod, writers[-1] if writers else 'Installer.__init__',
                    f'self.{attr} writers', f'self.{attr} is written in {writers}: the filter no longer reflects the command line')


def r3b(ctx: RuleCtx) -> None:
    m = _model(ctx)
    mod = m.mod
    eff = _effectful(m)
    # install_subdirs first: along the chain of helpers from do_install to the method that calls it, every other effect of each
    # level is dominated by the call that leads to install_subdirs
    first_name = 'install_subdirs'
    chain = _call_chain(m, 'do_install', first_name)
    if chain is None:
        raise Undecided(f'do_install does not reach self.{first_name} through at most three levels of Installer helpers')
    total = 0
    for holder, callee in zip(chain, chain[1:]):
        fnh = m.inst[holder]
        cfg = CFG(fnh)
        en = _effect_nodes(m, cfg, eff, flags=())
        first = [cfg.nodes[i] for i, e in en.items() if f'self.{callee}' in e]
        if len(first) != 1:
            raise Undecided(f'{holder}: {len(first)} statements call self.{callee}')
        others = [cfg.nodes[i] for i in en if i != first[0].id]
        total += len(others)
        for n in others:
            ctx.require(cfg.must_pass(cfg.entry, n, first), f'{holder}: {", ".join(en[n.id])} only after {callee}', mod, f'Installer.{holder}', n.expr() or fnh,
                        f'{", ".join(en[n.id])} can run before install_subdirs, which must be first because it replaces the old subtree '
                        f'(files installed earlier into that subtree would be deleted or copied over)', n.ast)
    ctx.floor('effectful calls ordered after install_subdirs', total, 1)

    ex = Rec()
    _r3b_perm_last(ex, _mode_example())
    if [f for f, _, _ in ex.v] != ['Installer.install_b'] or len(ex.oks) != 2:
        raise AnalysisError(f'C11.R3b built-in example not recognised: {ex.v} {ex.oks}')
    ctx.ok('built-in example: set_mode followed by a copy to the same path is flagged, copy-then-set_mode is clean', nontrivial=False)
    _r3b_perm_last(ctx, m)


def _call_chain(m: Model, start: str, target: str, depth: int = 3) -> T.Optional[T.List[str]]:
    """[start, helper..., target]: the unique chain of self-calls from `start` to the method `target`."""
    paths = [[start]]
    for _ in range(depth):
        nxt = []
        for pth in paths:
            fn = m.inst.get(pth[-1])
            if fn is None:
                continue
            callees = list(dict.fromkeys(x for x in (_self_method(c) for c in calls_in(fn)) if x and x in m.inst and x not in m.dry.wrappers()))
            if target in callees:
                return pth + [target]
            nxt += [pth + [x] for x in callees if x not in pth]
        paths = nxt
    return None


def _per_item_methods(m: Model) -> T.List[str]:
    """The per-kind installers, do_copydir, and the Installer helpers they delegate to (not the dry-run wrappers)."""
    base = list(dict.fromkeys([lp.method for lp in _per_kind_loops(m)] + [x for x in ('do_copydir',) if x in m.inst]))
    out = list(base)
    for b in base:
        for x in _reached_methods(m, start=b, depth=2):
            if x not in out and x not in ('do_install',):
                out.append(x)
    return out


def _r3b_perm_last(ctx: Ctx, m: Model) -> None:
    """Permission calls are the last effect on their path within an iteration."""
    mod = m.mod
    eff = _effectful(m)
    perm = _perm_wrappers(m)
    count = 0
    methods = _per_item_methods(m)
    for name in methods:
        fn = m.inst[name]
        cfg = CFG(fn)
        en = _effect_nodes(m, cfg, eff, flags=())
        loops = [st for st in walk_no_nested(fn) if isinstance(st, ast.For)]
        for nid, effs in en.items():
            pcalls = [e for e in effs if e.startswith('self.') and e.split('.')[1] in perm]
            if not pcalls:
                continue
            node = cfg.nodes[nid]
            ln = node.lineno
            encl = [l for l in loops if l.lineno <= ln <= (l.end_lineno or 0)]
            # inside a loop the iteration is the unit; in a helper without a loop (one item per call) the whole body is
            stop = [_iter_node(cfg, max(encl, key=lambda l: l.lineno))] if encl else []
            after = cfg.reachable([node], stop, edge_ok=lambda a, b, lab: lab != 'exc')
            target = _perm_target(node, perm, m)
            late = [cfg.nodes[i] for i in sorted(after & set(en)) if _touches(cfg.nodes[i], target, eff, perm, m)]
            count += 1
            ctx.require(not late, f'Installer.{name}: {pcalls[0]}(...) is the last effect of its iteration', mod, f'Installer.{name}', node.expr() or fn,
                        f'after {pcalls[0]}(...) the same iteration still runs {", ".join(en[late[0].id]) if late else ""}: '
                        f'the file is modified (copied / stripped / rpath-fixed) after its mode was set, so the final mode is not the declared one', node.ast)
    ctx.floor('permission calls inside per-kind loops', count, 1)


def _wrapper_arg(m: Model, call: ast.Call, index: int) -> T.Optional[ast.AST]:
    """Argument of a `self.<wrapper>(...)` call that lands on parameter `index` of the wrapped primitive (positional or by keyword)."""
    w = _self_method(call)
    sites = m.dry.wrappers().get(w or '', [])
    for st in sites:
        nm = st.ref.name
        if nm.startswith('minstall:') and nm.split(':', 1)[1] in m.top:
            ps = U.params_of(m.top[nm.split(':', 1)[1]], drop_self=False)
            if index < len(ps):
                return U.call_arg(call, index, ps[index])
        for pos, kw in U.MUTATORS.get(nm, []):
            if pos == index:
                return U.call_arg(call, index, kw)
    return U.call_arg(call, index, ())


def _perm_target(node: Node, perm: T.Set[str], m: T.Optional[Model] = None) -> str:
    e = node.expr()
    for x in walk_no_nested(e) if e is not None else []:
        if isinstance(x, ast.Call) and _self_method(x) in perm:
            a = _wrapper_arg(m, x, 0) if m is not None else U.call_arg(x, 0, 'path')
            if a is not None:
                return norm(a)
    raise Undecided(f'permission call without a path argument: {short(e)}')


def _touches(node: Node, target: str, eff: T.Set[str], perm: T.Set[str], m: Model) -> bool:
    """Does this statement hand `target` (the path whose mode was just set) to a non-permission effect?"""
    e = node.expr()
    if e is None:
        return False
    roots: T.List[ast.AST] = [node.ast.iter] if node.kind == 'iter' else [e]  # type: ignore[union-attr]
    for r in roots:
        for x in walk_no_nested(r):
            if isinstance(x, ast.Call) and ((_self_method(x) in eff and _self_method(x) not in perm) or _is_dirmaker_call(m, x)):
                for a in list(x.args) + [k.value for k in x.keywords]:
                    if any(norm(y) == target for y in ast.walk(a) if isinstance(y, ast.expr)):
                        return True
    return False


def r3c(ctx: RuleCtx) -> None:
    ex = Rec()
    _r3c_core(ex, _mode_example())
    got = sorted((f, 'never' if 'never passed' in msg else 'escape') for f, _, msg in ex.v)
    if got != [('Installer.install_b', 'never'), ('Installer.install_c', 'escape')] or len(ex.oks) != 1:
        raise AnalysisError(f'C11.R3c built-in example not recognised: {ex.v} {ex.oks}')
    ctx.ok('built-in example: a `continue` between copy and set_mode, and a copy after set_mode, are flagged; copy-then-set_mode is clean', nontrivial=False)
    _r3c_core(ctx, _model(ctx))


def _r3c_core(ctx: Ctx, m: Model) -> None:
    """Every file a per-kind loop copies reaches set_mode(dest) on all normal paths on which the copy happened."""
    from ..paths import enumerate_paths
    mod = m.mod
    copyfn = mod.func('Installer.do_copyfile')
    setmode = 'set_mode'
    if setmode not in m.dry.wrappers():
        raise Undecided('Installer.set_mode is not a dry-run wrapper')
    methods = _per_item_methods(m)
    sites = 0
    for name in methods:
        fn = m.inst[name]
        loops = [st for st in walk_no_nested(fn) if isinstance(st, ast.For)]
        for c in calls_in(fn):
            if _self_method(c) != 'do_copyfile':
                continue
            encl = [l for l in loops if l.lineno <= c.lineno <= (l.end_lineno or 0)]
            unit = max(encl, key=lambda l: l.lineno).body if encl else fn.body     # one item: an iteration, or a per-item helper's body
            dest = U.bind_args(c, copyfn).get('to_file')
            if dest is None:
                raise Undecided(f'Installer.{name}: do_copyfile without destination: {short(c)}')
            sites += 1
            if _sets_mode_of(m, c, dest):
                ctx.ok(f'Installer.{name}: the copy to `{norm(dest)}` sets the mode itself (do_copyfile hands its destination to set_mode)')
                continue
            missing: T.Dict[str, T.List[str]] = {}
            npaths = 0
            for p in enumerate_paths(unit, unroll=1):
                verdict = _copy_reaches_mode(p, c, dest, m)
                if verdict is None:
                    continue
                npaths += 1
                if verdict:
                    missing.setdefault(verdict[0], []).append(verdict[1])
            if not npaths:
                raise Undecided(f'Installer.{name}: no path through {short(c)}')
            if missing and sum(len(x) for x in missing.values()) == npaths:
                whens = [w for ws in missing.values() for w in ws]
                ctx.violation(mod, f'Installer.{name}', c,
                              f'the file copied to `{norm(dest)}` is never passed to self.set_mode({norm(dest)}, ...) (0 of {npaths} normal paths, e.g. when {whens[0]}): '
                              f'the installed file keeps the mode of the build-tree file instead of install_mode / default permissions masked by install_umask', c)
                missing = {'<reported>': []}
            for escape, whens in missing.items():
                if not whens:
                    continue
                ctx.violation(mod, f'Installer.{name}', f'{norm(c)} -> {escape}',
                              f'the file copied to `{norm(dest)}` does not reach self.set_mode({norm(dest)}, ...) on {len(whens)} of {npaths} normal paths: '
                              f'the iteration leaves through `{escape}`, e.g. when {whens[0]}; the installed file keeps the mode of the build-tree file '
                              f'instead of install_mode / default permissions masked by install_umask', c)
            if not missing:
                ctx.ok(f'Installer.{name}: copy to `{norm(dest)}` reaches set_mode({norm(dest)}, ...) on all {npaths} normal paths on which the copy happened')
    ctx.floor('do_copyfile call sites in per-kind loops', sites, 1)


def _sets_mode_of(m: Model, call: ast.Call, dest: ast.AST, depth: int = 0) -> bool:
    """`self.helper(..., dest, ...)` where the helper (an Installer method) passes that parameter to self.set_mode (may-summary)."""
    meth = _self_method(call)
    if meth is None or meth in m.dry.wrappers() or meth not in m.inst or depth > 1:
        return False
    fn = m.inst[meth]
    try:
        bound = U.bind_args(call, fn)
    except Undecided:
        return False
    ps = [p_ for p_, a_ in bound.items() if norm(a_) == norm(dest)]
    for p_ in ps:
        for c in calls_in(fn):
            if _self_method(c) == 'set_mode':
                a0 = _wrapper_arg(m, c, 0)
                if a0 is not None and norm(a0) == p_:
                    return True
            elif _sets_mode_of(m, c, ast.Name(id=p_, ctx=ast.Load()), depth + 1):
                return True
    return False


def _contains(root: ast.AST, sub: ast.AST) -> bool:
    return any(x is sub for x in ast.walk(root))


def _copy_reaches_mode(p: T.Any, c: ast.Call, dest: ast.AST, m: Model) -> T.Optional[T.Tuple[str, str]]:
    """None: path does not perform the copy (or leaves exceptionally); (): reaches set_mode(dest); (escape, when): it does not."""
    evs = p.events
    idx = None
    for i, ev in enumerate(evs):
        if ev.node is not None and ev.kind in ('stmt', 'cond') and _contains(ev.node, c):
            idx = i
            break
    if idx is None:
        return None
    ev = evs[idx]
    flag: T.Optional[str] = None
    if ev.kind == 'cond':
        if ev.node is c and ev.val is False:
            return None     # do_copyfile answered False: nothing was copied
        if ev.node is not c:
            raise Undecided(f'do_copyfile inside a compound condition: {short(ev.node)}')
    elif isinstance(ev.node, ast.Assign) and ev.node.value is c and len(ev.node.targets) == 1 and isinstance(ev.node.targets[0], ast.Name):
        flag = ev.node.targets[0].id
    dnames = {n.id for n in ast.walk(dest) if isinstance(n, ast.Name)}
    for ev2 in evs[idx + 1:]:
        if ev2.node is None:
            continue
        if ev2.kind == 'cond' and flag is not None and isinstance(ev2.node, ast.Name) and ev2.node.id == flag:
            if ev2.val is False:
                return None   # the result of this very copy was tested false: nothing was copied
            continue
        if ev2.kind == 'stmt':
            for x in walk_no_nested(ev2.node):
                if isinstance(x, ast.Call):
                    if _self_method(x) == 'set_mode':
                        a0 = _wrapper_arg(m, x, 0)
                        if a0 is not None and norm(a0) == norm(dest):
                            return ()  # type: ignore[return-value]
                    if norm(x.func) == 'sys.exit':
                        return None
                    if _sets_mode_of(m, x, dest):
                        return ()  # type: ignore[return-value]
                    if isinstance(x.func, ast.Name) and x.func.id == 'set_mode' and x.func.id in m.mut and U.call_arg(x, 0, 'path') is not None \
                            and norm(U.call_arg(x, 0, 'path')) == norm(dest):
                        return ()  # type: ignore[return-value]
            if isinstance(ev2.node, (ast.Assign, ast.AugAssign, ast.AnnAssign)):
                tg = ev2.node.targets if isinstance(ev2.node, ast.Assign) else [ev2.node.target]
                names = {n.id for t in tg for n in ast.walk(t) if isinstance(n, ast.Name)}
                if flag in names:
                    flag = None      # re-bound: later tests say nothing about this copy
                if names & dnames:
                    raise Undecided(f'destination `{norm(dest)}` is re-bound between the copy and set_mode')
    if p.outcome == 'raise':
        return None
    after = [(norm(e.node), e.val) for e in evs[idx + 1:] if e.kind == 'cond']
    conds = [('' if v else 'not ') + k for k, v in p.conds()]
    tail = [x for x in conds if 'should_install' not in x]
    last = (('' if after[-1][1] else 'not ') + after[-1][0]) if after else 'no further test'
    return (f'{p.outcome if p.outcome != "fall" else "end of iteration"} after `{last}`', ' and '.join(tail[-4:]))


# =============================================================================================
# R4 log <-> uninstall

def _literal_head(a: ast.AST) -> T.Optional[str]:
    """Constant text a string template starts with (f-string, `'..{}'.format()`, `'..%s' % x`, `'lit' + x`, ''.join([...])); None if not a template."""
    if isinstance(a, ast.Constant) and isinstance(a.value, str):
        return a.value
    if isinstance(a, ast.JoinedStr):
        return str(a.values[0].value) if a.values and isinstance(a.values[0], ast.Constant) else ''
    if isinstance(a, ast.Call) and isinstance(a.func, ast.Attribute) and a.func.attr == 'format' and isinstance(a.func.value, ast.Constant) and isinstance(a.func.value.value, str):
        return a.func.value.value.split('{', 1)[0]
    if isinstance(a, ast.BinOp) and isinstance(a.op, ast.Mod) and isinstance(a.left, ast.Constant) and isinstance(a.left.value, str):
        return a.left.value.split('%', 1)[0]
    if isinstance(a, ast.BinOp) and isinstance(a.op, ast.Add):
        left = a
        while isinstance(left, ast.BinOp) and isinstance(left.op, ast.Add):
            left = left.left     # type: ignore[assignment]
        return left.value if isinstance(left, ast.Constant) and isinstance(left.value, str) else None   # type: ignore[attr-defined]
    if isinstance(a, ast.Call) and isinstance(a.func, ast.Attribute) and a.func.attr == 'join' and isinstance(a.func.value, ast.Constant) and a.func.value.value == '' \
            and len(a.args) == 1 and isinstance(a.args[0], (ast.List, ast.Tuple)) and a.args[0].elts:
        return _literal_head(a.args[0].elts[0])
    return None


def _log_args(mod: Module, lc: ast.Call) -> T.Tuple[ast.AST, ast.AST]:
    """(file, line) arguments of an append_to_log call, bound by the function's signature."""
    ps = U.params_of(mod.func('append_to_log'), drop_self=False) if mod.has_func('append_to_log') else ['lf', 'line']
    if len(ps) != 2:
        raise Undecided('append_to_log: expected (file, line)')
    a0, a1 = U.call_arg(lc, 0, ps[0]), U.call_arg(lc, 1, ps[1])
    if a0 is None or a1 is None:
        raise Undecided(f'append_to_log call shape: {short(lc)}')
    return a0, a1


def _log_calls(fn: U.FuncNode) -> T.List[ast.Call]:
    return [c for c in calls_in(fn) if isinstance(c.func, ast.Name) and c.func.id == 'append_to_log']


def r4a(ctx: RuleCtx) -> None:
    ex = Rec()
    _r4a_logged(ex, _mode_example())
    if [f for f, _, _ in ex.v] != ['Installer.do_link'] or len(ex.oks) != 1:
        raise AnalysisError(f'C11.R4a built-in example not recognised: {ex.v} {ex.oks}')
    ctx.ok('built-in example: a creation without append_to_log is flagged, a logged one is clean', nontrivial=False)
    m = _model(ctx)
    _r4a_logged(ctx, m)
    _r4a_dirmaker(ctx, m)


def _r4a_logged(ctx: Ctx, m: Model) -> None:
    mod = m.mod
    wr = m.dry.wrappers()
    creators = {w for w, sites in wr.items() if {s.ref.name for s in sites} & U.CREATORS}
    dirmakers = {w for w, sites in wr.items() if {s.ref.name for s in sites} & U.DIR_CREATORS}
    ra = RootingAnalysis(m)
    n_sites = 0
    for name, fn in m.inst.items():
        if name in wr:
            continue
        ccalls = [c for c in calls_in(fn) if _self_method(c) in creators]
        dcalls = [c for c in calls_in(fn) if _self_method(c) in dirmakers]
        for c in dcalls:
            ctx.violation(mod, f'Installer.{name}', c, f'self.{_self_method(c)}(...) creates a directory without going through DirMaker: it is never written to the install log, '
                                                       f'so uninstall leaves it behind', c)
        if not ccalls:
            continue
        cfg = CFG(fn)
        dem = {p for p, k in ra.sums[f'Installer.{name}'].demands if k == 'rooted'} if f'Installer.{name}' in ra.sums else set()
        logs = []
        for lc in _log_calls(fn):
            lfa, a = _log_args(mod, lc)
            if isinstance(a, ast.Name) and a.id in dem and norm(lfa) == 'self.lf':
                logs.append(lc)
        lognodes = [n for lc in logs for n in cfg.node_containing(lc)]
        for c in calls_in(fn):
            if attr_chain(c.func) in ('self.lf.write', 'self.lf.writelines', 'print') and any(isinstance(n_, ast.Name) and n_.id in dem for a_ in c.args for n_ in ast.walk(a_)) \
                    and (attr_chain(c.func) != 'print' or (kwarg(c, 'file') is not None and norm(kwarg(c, 'file')) == 'self.lf')):
                lognodes += cfg.node_containing(c)
        for c in calls_in(fn):
            hm = _self_method(c)
            if hm and hm in m.inst and hm not in wr and hm != name:
                hfn = m.inst[hm]
                try:
                    hb = U.bind_args(c, hfn)
                except Undecided:
                    continue
                for lc in _log_calls(hfn):
                    lfa, a = _log_args(mod, lc)
                    if isinstance(a, ast.Name) and a.id in hb and isinstance(hb[a.id], ast.Name) and hb[a.id].id in dem and norm(lfa) == 'self.lf':   # type: ignore[attr-defined]
                        lognodes += cfg.node_containing(c)
        logged_names = {(_log_args(mod, lc)[1]).id for lc in logs}      # type: ignore[attr-defined]
        fl_c = Flow(fn, nested=False)
        for c in ccalls:
            # the entry is created under the logged name itself, not "somewhere in its directory under the source's name"
            de = _wrapper_arg(m, c, 1)
            prim = {s_.ref.name for s_ in wr[_self_method(c)]}      # type: ignore[index]
            if isinstance(de, ast.Name) and de.id not in logged_names and prim & {'shutil.copy', 'shutil.copy2', 'shutil.move'}:
                into_dir = [d_ for d_ in fl_c.defs.get(de.id, [])
                            if (isinstance(d_, ast.Subscript) and isinstance(d_.value, ast.Call) and U.dotted(mod, d_.value.func) == 'os.path.split'
                                and isinstance(d_.slice, ast.Constant) and d_.slice.value == 0 and d_.value.args and norm(d_.value.args[0]) in logged_names)
                            or (isinstance(d_, ast.Call) and U.dotted(mod, d_.func) == 'os.path.dirname' and d_.args and norm(d_.args[0]) in logged_names)]
                if into_dir:
                    ctx.violation(mod, f'Installer.{name}', f'{norm(c)} -> entry named after the source',
                                  f'{short(c, 60)} copies into the directory `{de.id}` (= {short(into_dir[0], 40)}), so the entry is created under the *source\'s* base name, '
                                  f'while the log (and set_mode) use `{sorted(logged_names)[0]}`: with a renamed destination (install_data rename:, a dangling symlink) '
                                  f'the created entry and the logged one differ - uninstall leaves it behind and set_mode raises FileNotFoundError', c)
        for c in ccalls:
            n_sites += 1
            nodes = U.node_of(cfg, c)
            ok = bool(lognodes) and all(cfg.must_pass(n, cfg.exit_return, lognodes, no_exc=True) for n in nodes)
            ctx.require(ok, f'Installer.{name}: {short(c, 60)} is followed on every normal path by append_to_log(self.lf, <destination parameter>)',
                        mod, f'Installer.{name}', c,
                        f'after self.{_self_method(c)}(...) succeeds there is a normal path to the end of {name} that does not log a destination parameter '
                        f'({sorted(dem)}) to self.lf: the created file is missing from install-log.txt and uninstall will not remove it', c)
    ctx.floor('creation call sites in Installer', n_sites, 1)


def _r4a_dirmaker(ctx: RuleCtx, m: Model) -> None:
    """DirMaker records exactly the directories that did not exist, in creation order; emits them reversed (deepest first)."""
    mod = m.mod
    mk = mod.func('DirMaker.makedirs')
    impl = _dirmaker_impl(mod, m)
    cfg = CFG(mk)
    impl_nodes = cfg.nodes_with_call(lambda c: attr_chain(c.func) == f'self.{impl.attr}')
    if len(impl_nodes) != 1:
        raise Undecided('DirMaker.makedirs: injected makedirs is not called exactly once')
    impl_call = [c for c in calls_in(mk) if attr_chain(c.func) == f'self.{impl.attr}'][0]
    ps = U.params_of(mk)
    ctx.require(U.call_arg(impl_call, 0, ('name', 'path')) is not None and norm(U.call_arg(impl_call, 0, ('name', 'path'))) == ps[0], 'DirMaker.makedirs passes its own path to the injected makedirs', mod, 'DirMaker.makedirs', impl_call,
                f'the injected makedirs is called with `{short(impl_call.args[0]) if impl_call.args else ""}` instead of the requested path `{ps[0]}`')
    rec_attr, local, rev_local = _dirmaker_record(mk, cfg, impl_nodes[0])
    whiles = [st for st in walk_no_nested(mk) if isinstance(st, ast.While)]
    if len(whiles) != 1:
        raise Undecided('DirMaker.makedirs: expected one upward walk')
    # one iteration of the walk as a decision: `while T: B`  ==  `if T: B else: break` (a test folded into the loop condition and
    # an `if ...: break` at the top of the body are the same rows)
    one_iter = ast.If(test=whiles[0].test, body=whiles[0].body, orelse=[ast.Break()])
    ast.copy_location(one_iter, whiles[0])
    ast.fix_missing_locations(one_iter)
    tab = tables.extract(mk, body=[one_iter], effects=_assign_eff, inline=False, name='DirMaker.makedirs:walk')
    # the walker is the variable the two tests of the walk are about: `<w> in self.<recorded>` and `os.path.exists(<w>)`
    seen_c = [a for a in tab.atoms() if a.kind == 'in' and a.args[1] == f'self.{rec_attr}']
    if len(seen_c) != 1:
        raise Undecided(f'DirMaker.makedirs walk: tests {tab.atoms()} do not contain exactly one `<w> in self.{rec_attr}`')
    ex_c = [Atom('truth', (f'os.path.exists({seen_c[0].args[0]})',))]
    walker = seen_c[0].args[0]
    if not walker.isidentifier():
        raise Undecided(f'DirMaker.makedirs walk: walked value `{walker}` is not a local')
    ex_atom, seen_atom = ex_c[0], seen_c[0]
    fl_mk = Flow(mk, nested=False)

    def _is_parent_of_walker(text: str) -> bool:
        if text == f'os.path.dirname({walker})':
            return True
        binds = [norm(b) for b in fl_mk.defs.get(text, [])] if text.isidentifier() else []
        return bool(binds) and all(b == f'os.path.dirname({walker})' for b in binds)
    # "the walk reached the file-system root": walker == dirname(walker), in either operand order / through a parent local
    root_atoms = [a for a in tab.atoms() if a.kind == 'cmp' and a.args[0] == 'eq'
                  and ((a.args[1] == walker and _is_parent_of_walker(a.args[2])) or (a.args[2] == walker and _is_parent_of_walker(a.args[1])))]
    unknown = [a for a in tab.atoms() if a not in (ex_atom, seen_atom) and a not in root_atoms]
    if unknown or len(root_atoms) != 1:
        raise Undecided(f'DirMaker.makedirs walk: unknown atoms {unknown or tab.atoms()}')
    root_atom = root_atoms[0]

    def _steps_up(effects: T.Sequence[str]) -> bool:
        """The row moves the walker to its parent: `w := os.path.dirname(w)`, or `w := p` where every binding of p is
        os.path.dirname(w) and the row re-establishes it after the move."""
        moves = [(i, e.split(' := ', 1)[1]) for i, e in enumerate(effects) if e.startswith(f'{walker} := ')]
        if len(moves) != 1:
            return False
        i, v = moves[0]
        if v == f'os.path.dirname({walker})':
            return True
        if v.isidentifier():
            binds = [norm(b) for b in fl_mk.defs.get(v, [])]
            if binds and all(b == f'os.path.dirname({walker})' for b in binds):
                later = [e for e in effects[i + 1:] if e.startswith(f'{v} := ')]
                return later == [f'{v} := os.path.dirname({walker})']
        return False
    for w in tab.worlds([ex_atom, seen_atom]):
        rows = tab.fire(w)
        if len(rows) != 1:
            raise Undecided(f'DirMaker.makedirs walk: {len(rows)} rows in {w}')
        r = rows[0]
        if w[root_atom]:
            # at the root the walk ends without recording anything (one obligation for all worlds of the other atoms)
            if r.outcome != ('break',) or any(e.startswith(f'call {local}.') for e in r.effects):
                ctx.violation(mod, 'DirMaker.makedirs', 'walk at the file-system root', 'the walk does not stop (or records something) when it has reached the root', mk)
            continue
        unknown_ops = [e for e in r.effects if e.startswith(f'call {local}.') and not e.startswith((f'call {local}.append(', f'call {local}.insert(0, '))]
        wrong = [e for e in r.effects if e.startswith((f'call {local}.append(', f'call {local}.insert(0, ')) and e not in (f'call {local}.append({walker})', f'call {local}.insert(0, {walker})')]
        if wrong:
            ctx.violation(mod, 'DirMaker.makedirs', wrong[0][5:], f'the walk records `{wrong[0][5:]}` instead of the directory it has just tested (`{walker}`): the log names a directory install did not create', mk)
            continue
        if unknown_ops:
            raise Undecided(f'DirMaker.makedirs walk: `{unknown_ops[0][5:]}` on the list of new directories is not understood')
        recorded = f'call {local}.append({walker})' in r.effects or f'call {local}.insert(0, {walker})' in r.effects
        stepped = _steps_up(r.effects)
        if w[seen_atom]:
            want = (False, False)   # already recorded by an earlier call: stop
            got = (recorded, r.outcome == ('fall',))
            ok = not recorded and r.outcome == ('break',)
        else:
            want = (not w[ex_atom], True)
            got = (recorded, stepped)
            ok = got == want and r.outcome == ('fall',)
        ctx.require(ok, f'DirMaker walk: exists={w[ex_atom]} already-recorded={w[seen_atom]} -> record={want[0]}', mod, 'DirMaker.makedirs',
                    r.path.events[-1].node if r.path.events else mk,
                    f'for a directory that {"exists" if w[ex_atom] else "does not exist"} ({"already" if w[seen_atom] else "not yet"} recorded) the walk '
                    f'{"records" if recorded else "does not record"} it{"" if stepped or w[seen_atom] else " and does not step to the parent"}: the log must name exactly the directories install creates')
    ex = mod.func('DirMaker.__exit__')
    rev_exit, emitted = _dirmaker_emit(ex, rec_attr)
    if any(isinstance(c_, ast.Call) and isinstance(c_.func, ast.Attribute) and c_.func.attr == 'insert' and norm(c_.func.value) == local for c_ in calls_in(mk)):
        rev_local += 1      # inserting at the front while walking upwards already yields creation order
    ctx.require(rev_local % 2 == 1, 'DirMaker.makedirs stores new directories in creation order (child-first walk reversed once)', mod, 'DirMaker.makedirs', mk,
                f'the child-first list of new directories is reversed {rev_local} time(s) before it is stored: self.{rec_attr} is no longer in creation order, '
                f'so the reversed emission is not deepest-first across calls (rmdir of a parent precedes its child and fails)')
    ctx.require(rev_exit % 2 == 1 and emitted, 'DirMaker.__exit__ logs every recorded directory in reverse creation order (deepest first)', mod, 'DirMaker.__exit__', ex,
                ('DirMaker.__exit__ does not append every recorded directory to the log' if not emitted else
                 f'recorded directories are reversed {rev_exit} time(s) before they are logged: parents precede children, uninstall cannot rmdir them'))
    # the DirMaker is a context manager around all installers and logs to the installer's log
    do = mod.func('Installer.do_install')
    withs = [st for st in walk_no_nested(do) if isinstance(st, ast.With) and any(isinstance(i.context_expr, ast.Call) and norm(i.context_expr.func) == 'DirMaker' for i in st.items)]
    if len(withs) != 1:
        raise Undecided('do_install: DirMaker is not used as the context manager of one with statement')
    item = [i for i in withs[0].items if isinstance(i.context_expr, ast.Call) and norm(i.context_expr.func) == 'DirMaker'][0]
    b = U.bind_args(item.context_expr, mod.func('DirMaker.__init__'))  # type: ignore[arg-type]
    lfp = [p for p in U.params_of(mod.func('DirMaker.__init__')) if p != impl.param]
    ctx.require(len(lfp) == 1 and norm(b.get(lfp[0])) == 'self.lf', 'DirMaker logs to the installer\'s log file self.lf', mod, 'Installer.do_install', item.context_expr,
                f'DirMaker is given `{short(b.get(lfp[0]) if lfp else None)}` as log file, not self.lf')
    dmname = norm(item.optional_vars) if item.optional_vars is not None else None
    outside = [c for c in calls_in(do) if dmname and any(norm(a) == dmname for a in c.args)
               and not (withs[0].lineno <= c.lineno <= (withs[0].end_lineno or 0))]
    ctx.require(dmname is not None and not outside, 'every installer receives the DirMaker inside its with block (so __exit__ logs the directories)', mod,
                'Installer.do_install', withs[0].items[0].context_expr, 'the DirMaker is used outside its with block: directories created there are never logged')


def _dirmaker_record(mk: U.FuncNode, cfg: CFG, impl_node: Node) -> T.Tuple[str, str, int]:
    """(self.<attr> the new directories are stored in, local list, number of reversals of the local before storing)."""
    store = None
    for n in walk_no_nested(mk):
        if isinstance(n, ast.AugAssign) and isinstance(n.op, ast.Add):
            ch = attr_chain(n.target)
            if ch and ch.startswith('self.'):
                store = (ch.split('.', 1)[1], n.value, n)
        elif isinstance(n, ast.Call) and isinstance(n.func, ast.Attribute) and n.func.attr == 'extend':
            ch = attr_chain(n.func.value)
            if ch and ch.startswith('self.') and len(n.args) == 1:
                store = (ch.split('.', 1)[1], n.args[0], n)
    if store is None:
        raise Undecided('DirMaker.makedirs: no `self.<list> += <new directories>`')
    attr, val, stmt = store
    rev, base = _reversals(val)
    if not isinstance(base, ast.Name):
        raise Undecided(f'DirMaker.makedirs: stored value not understood: {short(val)}')
    local = base.id
    for n in walk_no_nested(mk):
        if isinstance(n, ast.Call) and isinstance(n.func, ast.Attribute) and n.func.attr == 'reverse' and norm(n.func.value) == local:
            rev += 1
    snodes = cfg.node_containing(stmt)
    if not snodes or not all(cfg.must_pass(impl_node, cfg.exit_return, snodes, no_exc=True) for _ in [0]):
        raise Undecided('DirMaker.makedirs: the record statement is not on every normal path after the directories are made')
    return attr, local, rev


def _reversals(e: ast.AST) -> T.Tuple[int, ast.AST]:
    n = 0
    while True:
        if isinstance(e, ast.Call) and norm(e.func) in ('reversed',) and len(e.args) == 1:
            n += 1
            e = e.args[0]
        elif isinstance(e, ast.Call) and norm(e.func) in ('list', 'tuple') and len(e.args) == 1:
            e = e.args[0]
        elif isinstance(e, ast.Subscript) and isinstance(e.slice, ast.Slice) and e.slice.lower is None and e.slice.upper is None \
                and isinstance(e.slice.step, ast.UnaryOp) and isinstance(e.slice.step.op, ast.USub) and norm(e.slice.step.operand) == '1':
            n += 1
            e = e.value
        else:
            return n, e


def _dirmaker_emit(ex: U.FuncNode, attr: str) -> T.Tuple[int, bool]:
    rev = 0
    emitted = False
    for n in walk_no_nested(ex):
        if isinstance(n, ast.Call) and isinstance(n.func, ast.Attribute) and n.func.attr == 'reverse' and norm(n.func.value) == f'self.{attr}':
            rev += 1
        if isinstance(n, ast.For) and isinstance(n.target, ast.Name):
            r, base = _reversals(n.iter)
            if norm(base) == f'self.{attr}':
                for c in calls_in(n):
                    if isinstance(c.func, ast.Name) and c.func.id == 'append_to_log' and U.call_arg(c, 1, 'line') is not None and norm(U.call_arg(c, 1, 'line')) == n.target.id \
                            and U.call_arg(c, 0, 'lf') is not None and norm(U.call_arg(c, 0, 'lf')).startswith('self.'):
                        emitted = True
                        rev += r
    return rev, emitted


def _decode_verdict(expr: ast.AST, line: str, term: str) -> T.Tuple[str, str]:
    """('ok'|'keeps'|'over', what is removed beyond the terminator) for the reader's transform of one log line."""
    ch = U.strip_chain(expr)
    if ch.base != line:
        raise Undecided(f'do_uninstall: `{short(expr)}` is not derived from the loop variable `{line}`')
    tset = set(term)
    covered = set(ch.right) | (set(term) if U.WHITESPACE in ch.right and term.isspace() else set())
    removes_term = bool(tset and tset <= covered) or term in ch.right_exact or ('?' * len(term)) in ch.right_exact
    over_r = sorted(x for x in ch.right if x not in tset)
    over_l = sorted(x for x in ch.left if x not in tset)
    over_x = [x for x in ch.right_exact if x != term and x != '?' * len(term)]
    if not removes_term:
        return 'keeps', ''
    if over_r or over_l or over_x:
        what = 'all Unicode whitespace' if U.WHITESPACE in over_r + over_l else repr(''.join(over_r + over_l + over_x))
        side = ' and '.join(s_ for s_, o in (('leading', over_l), ('trailing', over_r + over_x)) if o)
        return 'over', f'{side} {what}'
    return 'ok', ''


def r4b(ctx: RuleCtx) -> None:
    """Writer (append_to_log / the constant lines) versus reader (scripts/uninstall.do_uninstall)."""
    exs = {"line.strip()": 'over', "line.rstrip('\\n')": 'ok', "line": 'keeps', "line.rstrip(' \\n')": 'over', "line[:-1]": 'ok', "line.lstrip()": 'keeps'}
    got = {k: _decode_verdict(ast.parse(k, mode='eval').body, 'line', '\n')[0] for k in exs}
    if got != exs:
        raise AnalysisError(f'C11.R4b built-in examples not recognised: {got}')
    ctx.ok('built-in examples: strip() / rstrip(" \\n") over-strip, no transform / lstrip() keep the terminator, rstrip("\\n") / [:-1] are exact', nontrivial=False)
    mod = U.nmodule(ctx.repo, MIN)
    um = U.nmodule(ctx.repo, UNI)
    # writer: the record terminator
    w = mod.func('append_to_log')
    wp = U.params_of(w, drop_self=False)
    if len(wp) != 2:
        raise Undecided('append_to_log: expected (file, line)')
    tab = tables.extract(w, effects=_assign_eff, name='append_to_log')
    terms: T.Set[str] = set()
    for r in tab.rows:
        writes = [e for e in r.effects if e.startswith('call ARG1.write(')]
        others = [e for e in r.effects if e.startswith('call ') and not e.startswith('call ARG1.write(') and e != 'call ARG1.flush()']
        if others or not writes:
            raise Undecided(f'append_to_log: row not understood: {r!r}')
        # the record written on this row = the concatenation of everything written: `<transform of the entry> + constant text`
        pieces: T.List[ast.AST] = []
        for e in writes:
            wc = ast.parse(e[len('call '):], mode='eval').body
            if len(wc.args) != 1 or wc.keywords:      # type: ignore[attr-defined]
                raise Undecided(f'append_to_log: row not understood: {r!r}')
            todo = [wc.args[0]]      # type: ignore[attr-defined]
            while todo:
                x = todo.pop(0)
                if isinstance(x, ast.BinOp) and isinstance(x.op, ast.Add):
                    todo[:0] = [x.left, x.right]
                elif isinstance(x, ast.JoinedStr) and all(isinstance(v_, ast.Constant) or (isinstance(v_, ast.FormattedValue) and v_.conversion == -1 and v_.format_spec is None)
                                                          for v_ in x.values):
                    todo[:0] = [v_.value if isinstance(v_, ast.FormattedValue) else v_ for v_ in x.values]
                else:
                    pieces.append(x)
        if not pieces or isinstance(pieces[0], ast.Constant):
            raise Undecided(f'append_to_log: row not understood: {r!r}')
        wch = U.strip_chain(pieces[0])
        if wch.base != 'ARG2':
            raise Undecided(f'append_to_log: the first thing written is not derived from the entry: {r!r}')
        extra = []
        for v in pieces[1:]:
            if not (isinstance(v, ast.Constant) and isinstance(v.value, str)):
                raise Undecided(f'append_to_log writes a non-constant after the line: {short(v)}')
            extra.append(v.value)
        if wch.left or wch.right or wch.right_exact:
            # the writer transforms the entry before recording it: only the terminator it appends itself may be removed
            tail = ''.join(extra)
            lost = sorted(x for x in wch.left | wch.right if x not in set(tail)) + [x for x in wch.right_exact if x != tail]
            if lost or wch.left or not tail:
                what = 'all Unicode whitespace' if U.WHITESPACE in lost else repr(''.join(lost))
                ctx.violation(mod, 'append_to_log', pieces[0], f'the log writer records `{short(pieces[0])}` instead of the entry: it removes {what} from the created path, '
                              'so a path ending (or starting) with such a character is logged under another name and uninstall removes that other path, not what was created', w)
                return
            if r.conds:
                raise Undecided(f'append_to_log: conditions not understood: {r!r}')
            terms.add(tail)
            continue
        ends = [(a, v) for a, v in r.conds.items() if a.kind == 'truth' and a.args[0].startswith('ARG2.endswith(')]
        if len(ends) != 1 or len(r.conds) != 1:
            raise Undecided(f'append_to_log: conditions not understood: {r!r}')
        suffix = ast.parse(ends[0][0].args[0], mode='eval').body.args[0]    # type: ignore[attr-defined]
        if not (isinstance(suffix, ast.Constant) and isinstance(suffix.value, str)):
            raise Undecided('append_to_log: endswith argument')
        if ends[0][1]:
            if extra:
                raise Undecided('append_to_log: extra text written although the line already ends with the terminator')
            terms.add(suffix.value)
        else:
            terms.add(''.join(extra))
    if len(terms) != 1:
        ctx.violation(mod, 'append_to_log', w, f'append_to_log does not end every record with one terminator: {sorted(terms)}', w)
        return
    term = terms.pop()
    ctx.ok(f'writer append_to_log ends every record with exactly {term!r}')

    # reader
    du = um.func('do_uninstall')
    loops = [st for st in walk_no_nested(du) if isinstance(st, ast.For) and isinstance(st.target, ast.Name)
             and any(isinstance(c.func, ast.Name) and c.func.id == 'open' for c in ast.walk(st.iter) if isinstance(c, ast.Call))]
    if len(loops) != 1:
        # `with open(..) as f: for line in f`
        fl = Flow(du, nested=False)
        loops = [st for st in walk_no_nested(du) if isinstance(st, ast.For) and isinstance(st.target, ast.Name) and 'call:open' in fl.origins(st.iter)]
        if len(loops) != 1:
            raise Undecided('do_uninstall: the loop over the lines of the log was not found')
    loop = loops[0]
    line = loop.target.id   # type: ignore[union-attr]
    removers = {'os.rmdir', 'os.unlink', 'os.remove'}
    fl = Flow(du, nested=False)
    # the removal site: the loop body itself, or a module-level helper the loop hands the decoded name to
    site_fn, site_q, site_body = du, 'do_uninstall', loop.body
    refs = [r for r in U.effect_refs(um, du) if r.cls == 'fs']
    handoff: T.Optional[T.Tuple[ast.Call, U.FuncNode, T.Dict[str, ast.AST]]] = None
    if not refs:
        cands = []
        for c in calls_in(loop):
            if isinstance(c.func, ast.Name) and um.has_func(c.func.id) and '.' not in c.func.id:
                h = um.func(c.func.id)
                hr = [r for r in U.effect_refs(um, h) if r.cls == 'fs']
                if hr:
                    cands.append((c, h, hr))
        if len(cands) != 1:
            raise Undecided(f'do_uninstall: no removal call in the loop and {len(cands)} helper(s) that remove')
        c0, site_fn, refs = cands[0]
        site_q, site_body = site_fn.name, site_fn.body
        handoff = (c0, site_fn, U.bind_args(c0, site_fn, drop_self=False))
    ctx.floor('removal calls of uninstall', len(refs), 1)
    decoded: T.Dict[str, ast.AST] = {}
    site_names: T.Set[str] = set()
    for r in refs:
        if r.call is None and r.name in removers:
            raise Undecided(f'{site_q}: `{r.name}` is used as a value (selected first, called later); the call could not be normalised')
        tgt = U.call_arg(r.call, 0, ('path', 'name')) if r.call is not None else None
        single = r.name in removers and r.call is not None and len(r.call.args) + len(r.call.keywords) == 1 and tgt is not None
        inside = handoff is not None or (r.call is not None and loop.lineno <= r.call.lineno <= (loop.end_lineno or 0))
        if single and inside and not isinstance(tgt, ast.Name):
            raise Undecided(f'{site_q}: removal target `{short(tgt)}` is not a plain name')
        if single and inside:
            nm = tgt.id   # type: ignore[union-attr]
            site_names.add(nm)
            if handoff is not None:
                c0, h, bound = handoff
                if nm not in bound or Flow(h, nested=False).defs.get(nm) or not isinstance(bound[nm], ast.Name):
                    raise Undecided(f'{site_q}: removal target `{nm}` is not a parameter that receives the decoded line unchanged')
                nm = bound[nm].id   # type: ignore[attr-defined]
            defs = [d_ for d_ in fl.defs.get(nm, []) if d_ is not loop.iter]
            if not defs and nm == line:
                defs = [ast.Name(id=line, ctx=ast.Load())]      # the raw line itself is handed to the removal
            if len(defs) != 1:
                raise Undecided(f'do_uninstall: `{nm}` has {len(defs)} bindings; the decoding of a log line is not a single expression')
            decoded[nm] = defs[0]
        ctx.require(single and inside, f'{site_q}: {r.name}(<decoded log line>) is a single-entry removal', um, site_q, r.call or r.node,
                    f'{site_q} uses `{r.name}` on `{short(tgt) if tgt is not None else "?"}`: uninstall must remove exactly the logged entries '
                    f'(only rmdir/unlink of the decoded line; anything recursive or on another path removes what install did not create)', r.node)
    if len(decoded) != 1 or len(site_names) != 1:
        raise Undecided(f'do_uninstall: removal targets {sorted(decoded)} are not one decoded name')
    name, expr = next(iter(decoded.items()))
    sname = next(iter(site_names))
    construct = f'{name} = {norm(expr)}'
    kind, detail = _decode_verdict(expr, line, term)
    if kind == 'keeps':
        ctx.violation(um, 'do_uninstall', construct, f'the reader does not remove the record terminator {term!r} the writer appends: every name handed to unlink ends in {term!r} and nothing is removed', expr)
    elif kind == 'over':
        ctx.violation(um, 'do_uninstall', construct,
                      f'the writer terminates a record with exactly {term!r}, the reader removes {detail}: it is not the inverse of the writer. '
                      f'Witness: an installed file named "name " (trailing blank) is logged as "…/name \\n", decoded as "…/name", unlink fails and the file stays', expr)
    else:
        ctx.ok(f'reader decodes a record with `{norm(expr)}`: removes exactly the writer\'s terminator {term!r} and nothing else')

    # the loop: comment lines (and empty records) are skipped before anything is removed
    tab_du = tables.extract(du, body=loop.body, effects=_assign_eff, inline=False, name='do_uninstall:loop', handlers=False)
    comment_atoms = [a for a in tab_du.atoms() if a.kind == 'truth' and a.args[0].startswith(f'{line}.startswith(')]
    if len(comment_atoms) != 1:
        raise Undecided(f'do_uninstall loop: comment test not found among {tab_du.atoms()}')
    cpre = ast.parse(comment_atoms[0].args[0], mode='eval').body.args[0]   # type: ignore[attr-defined]
    if not (isinstance(cpre, ast.Constant) and isinstance(cpre.value, str) and cpre.value):
        raise Undecided('do_uninstall: comment prefix is not a constant')
    cpre_s = cpre.value
    helper_name = handoff[1].name if handoff is not None else None
    for r_ in tab_du.rows:
        if r_.conds.get(comment_atoms[0]) is True:
            acts = [e for e in r_.effects if e.startswith('call os.') or (helper_name and f'{helper_name}(' in e)]
            tests = [a for a in r_.conds if helper_name and f'{helper_name}(' in repr(a)]
            if r_.outcome != ('continue',) or acts or tests:
                ctx.violation(um, 'do_uninstall', f'comment line {cpre_s!r}', 'a comment line of the log is not skipped before the removal', loop)
                break
    else:
        ctx.ok(f'do_uninstall: lines starting with {cpre_s!r} are skipped before anything is removed')

    # removal kind: directories (not links to them) -> rmdir, everything else -> unlink
    tab2 = tab_du if handoff is None else tables.extract(site_fn, body=site_body, effects=_assign_eff, inline=False, name=f'{site_q}:removal', handlers=False)
    if handoff is not None:
        hps = U.params_of(site_fn, drop_self=False)
        sname = f'ARG{hps.index(sname) + 1}'      # tables rename parameters by position
    isdir, islink = Atom('truth', (f'os.path.isdir({sname})',)), Atom('truth', (f'os.path.islink({sname})',))
    # "the decoded name is empty" in any spelling: `not name`, `name == ''`, `len(name) == 0`
    nonempty: T.Dict[Atom, bool] = {}      # atom -> its value when the name is non-empty
    for a in tab2.atoms():
        if a.kind == 'truth' and a.args[0] == sname:
            nonempty[a] = True
        elif a.kind == 'cmp' and a.args[0] == 'eq' and ((a.args[1], a.args[2]) in ((sname, "''"), (f'len({sname})', '0'))):
            nonempty[a] = False
    skip = comment_atoms if handoff is None else []
    other = [a for a in tab2.atoms() if a not in (isdir, islink) and a not in skip and a not in nonempty]
    if other:
        raise Undecided(f'{site_q}: atoms not understood: {other}')
    for wv in tab2.worlds([isdir, islink]):
        if any(wv.get(a) for a in skip):
            continue
        if any(wv.get(a) != val for a, val in nonempty.items()):
            continue   # an empty record (tolerated by the reader): nothing to remove
        rows = tab2.fire(wv)
        if len(rows) != 1:
            raise Undecided(f'{site_q}: {len(rows)} rows in {wv}')
        calls = [e[len('call '):].split('(')[0] for e in rows[0].effects if e.startswith('call os.')]
        want = ['os.rmdir'] if (wv[isdir] and not wv[islink]) else ['os.unlink']
        got = ['os.unlink' if c == 'os.remove' else c for c in calls]
        ctx.require(got == want, f'{site_q}: isdir={wv[isdir]} islink={wv[islink]} -> {want[0]}', um, site_q,
                    rows[0].path.events[-1].node if rows[0].path.events else loop,
                    f'for an entry with isdir={wv[isdir]}, islink={wv[islink]} uninstall calls {got}; expected {want} (a symlink to a directory must be unlinked, a directory rmdir\'ed)')

    # comment lines: everything the writer emits that is not a destination starts with the prefix the reader skips
    nconst = 0
    for q, fn in mod.funcs().items():
        for c in _log_calls(fn):
            a = _log_args(mod, c)[1]
            head = _literal_head(a)
            if head is None:
                continue
            nconst += 1
            ctx.require(head.startswith(cpre_s), f'{q}: informational log line {short(a, 40)} starts with the comment prefix {cpre_s!r} the reader skips', mod, q, c,
                        f'the informational line {short(a, 60)} does not start with {cpre_s!r}: uninstall would try to delete a file of that name', c)
    ctx.floor('informational log lines', nconst, 1)

    # both sides use the same file and encoding
    run = mod.func('run')
    wopen = [r.call for r in U.effect_refs(mod, run) if r.name.startswith('open:') and r.call is not None]
    ropen = [c for c in ast.walk(du) if isinstance(c, ast.Call) and isinstance(c.func, ast.Name) and c.func.id == 'open']
    if len(wopen) != 1 or len(ropen) != 1:
        raise Undecided('log open calls')
    we, re_ = kwarg(wopen[0], 'encoding'), kwarg(ropen[0], 'encoding')
    ctx.require(we is not None and re_ is not None and norm(we) == norm(re_), f'log written and read with the same encoding ({norm(we)})', um, 'do_uninstall', ropen[0],
                f'the log is written with encoding {norm(we)} and read with {norm(re_)}: non-ASCII file names are decoded differently')
    nl = [kwarg(c, 'newline') for c in (wopen[0], ropen[0])]
    ctx.require(nl[0] is None and nl[1] is None or (nl[0] is not None and nl[1] is not None and norm(nl[0]) == norm(nl[1])),
                'log written and read with the same newline translation', um, 'do_uninstall', ropen[0], 'writer and reader use different newline= settings')
    wpth = posixpath.normpath(_fold_path(run, wopen[0].args[0], mod=mod))
    rcalls = [c for c in calls_in(um.func('run')) if isinstance(c.func, ast.Name) and c.func.id == 'do_uninstall']
    rp = _uninstall_log_path(ctx)
    ctx.require(rp == wpth, f'uninstall reads the file install writes ({wpth})', um, 'run', rcalls[0] if rcalls else um.func('run'),
                f'install writes its log to `{wpth}`, uninstall reads `{rp}`')


# =============================================================================================
# R5 permissions

R5_EXAMPLE = """
import os
def is_executable(path, follow_symlinks=False):
    return bool(os.stat(path, follow_symlinks=follow_symlinks).st_mode & 0o100)
def set_chmod(path, mode, dir_fd=None, follow_symlinks=True):
    os.chmod(path, mode)
def sanitize_permissions(path, umask):
    if umask == 'preserve':
        return
    new_perms = 0o755 if is_executable(path, follow_symlinks=False) else 0o644
    new_perms &= ~umask
    set_chmod(path, new_perms, follow_symlinks=False)
"""


def _r5_bits(ctx: Ctx, mod: Module) -> None:
    # ---- sanitize_permissions ----
    sp = mod.func('sanitize_permissions')
    tab2 = tables.extract(sp, effects=_assign_eff, name='sanitize_permissions')
    pres = Atom('cmp', ('eq', 'ARG2', "'preserve'"))
    isint = Atom('isinstance', ('ARG2', ('int',)))
    probe_atoms = [a for a in tab2.atoms() if a.kind == 'truth' and a.args[0].startswith('is_executable(')]
    unknown = [a for a in tab2.atoms() if a not in (pres, isint) and a not in probe_atoms]
    if unknown or pres not in tab2.atoms():
        raise Undecided(f'sanitize_permissions: atoms {tab2.atoms()}')
    rows = tab2.fire({pres: True})
    rows = [r for r in tab2.rows if r.conds.get(pres) is True]
    ok = len(rows) == 1 and not [e for e in rows[0].effects if e.startswith('call ')]
    ctx.require(ok, "sanitize_permissions: umask 'preserve' -> file untouched", mod, 'sanitize_permissions', sp,
                "with install_umask 'preserve' sanitize_permissions still changes the mode")
    rows = [r for r in tab2.rows if r.conds.get(pres) is False]
    if not rows:
        raise Undecided('sanitize_permissions: no row for an integer umask')
    # the mode handed to chmod, symbolically: the row's assignments composed into one expression over the parameters, compared
    # by operator / operand structure with  (0o777 if is_executable(path) else 0o666) & ~umask ; the choice may also be made by
    # an if statement (then the rows are split on the probe atom and each carries  CONST & ~umask)
    bits: T.Dict[bool, int] = {}
    masks: T.Set[T.Tuple[str, bool]] = set()
    probes: T.List[ast.Call] = []
    where: ast.AST = sp
    for r in rows:
        chm = [e for e in r.effects if e.startswith('call set_chmod(')]
        if len(chm) != 1:
            raise Undecided(f'sanitize_permissions: chmod calls {chm}')
        call = ast.parse(chm[0][len('call '):], mode='eval').body
        assert isinstance(call, ast.Call)
        chps = U.params_of(mod.func('set_chmod'), drop_self=False)
        if len(chps) < 2 or 'follow_symlinks' not in chps + [a_.arg for a_ in mod.func('set_chmod').args.kwonlyargs]:
            raise Undecided('set_chmod: signature is not (path, mode, ..., follow_symlinks)')
        fs = U.call_arg(call, chps.index('follow_symlinks') if 'follow_symlinks' in chps else 99, 'follow_symlinks')
        c_path, c_mode = U.call_arg(call, 0, chps[0]), U.call_arg(call, 1, chps[1])
        if c_mode is None:
            raise Undecided(f'sanitize_permissions: chmod call shape {short(call)}')
        if not (c_path is not None and norm(c_path) == 'ARG1' and fs is not None and norm(fs) == 'False'):
            ctx.violation(mod, 'sanitize_permissions', call, f'sanitize_permissions calls `{short(call)}`: it must chmod the given path with follow_symlinks=False', sp)
            return
        expr = U.compose_assignments(r.effects, c_mode)
        where = r.path.events[-1].node if r.path.events else sp
        pa = [(a_, v_) for a_, v_ in r.conds.items() if a_ in probe_atoms]
        if pa:
            if len(pa) != 1:
                raise Undecided('sanitize_permissions: several executability probes on one path')
            flat = _flat_shape(expr)
            if flat is None:
                raise Undecided(f'sanitize_permissions: mode expression `{short(expr)}` is not of the form CONST & ~umask')
            pc = ast.parse(pa[0][0].args[0], mode='eval').body
            assert isinstance(pc, ast.Call)
            probes.append(pc)
            if pa[0][1] in bits and bits[pa[0][1]] != flat[0]:
                raise Undecided('sanitize_permissions: two rows with different bits for the same probe answer')
            bits[pa[0][1]] = flat[0]
            masks.add((flat[1], flat[2]))
        else:
            shape = _perm_shape(expr)
            if shape is None:
                raise Undecided(f'sanitize_permissions: mode expression `{short(expr)}` is not of the form (A if is_executable(path) else B) & ~umask')
            probes.append(shape[0])
            bits[True], bits[False] = shape[1], shape[2]
            masks.add((shape[3], shape[4]))
    ctx.ok('sanitize_permissions: chmod of the path itself, not following symlinks')
    if set(bits) != {True, False} or len(masks) != 1:
        raise Undecided(f'sanitize_permissions: rows do not cover both probe answers with one mask ({bits}, {masks})')
    mask, complemented = next(iter(masks))
    x_bits, plain_bits = bits[True], bits[False]
    pok = True
    for probe in probes:
        fsl = kwarg(probe, 'follow_symlinks') if len(probe.args) < 2 else probe.args[1]
        pok = pok and bool(probe.args) and norm(probe.args[0]) == 'ARG1' and fsl is not None and norm(fsl) == 'False'
    ctx.require(pok, 'sanitize_permissions: executability is probed on the path itself, not following symlinks', mod, 'sanitize_permissions', where,
                f'the default bits are chosen by `{short(probes[0])}`; it must test the installed path itself (follow_symlinks=False)')
    ctx.require((x_bits, plain_bits) == (0o777, 0o666), 'sanitize_permissions: default bits 0o777 for executables else 0o666 (constants folded)', mod, 'sanitize_permissions', where,
                f'default permission bits fold to {x_bits:#o} for an executable and {plain_bits:#o} otherwise; documented: 0o777 / 0o666, '
                f'restricted only by the install umask')
    ctx.require(complemented and mask == 'ARG2', 'sanitize_permissions: the bits are and-ed with the complement of the umask parameter', mod, 'sanitize_permissions', where,
                f'the default bits are combined with `{"~" if complemented else ""}{mask}`; they must be masked by `~umask` (bits set in the umask are cleared)')
    # ---- is_executable: bool(stat(path).st_mode & (S_IXUSR | S_IXGRP | S_IXOTH)) ----
    ie = mod.func('is_executable')
    tab3 = tables.extract(ie, name='is_executable')
    if len(tab3.rows) != 1 or tab3.rows[0].conds or tab3.rows[0].outcome[0] != 'return':
        raise Undecided(f'is_executable: expected one unconditional return, table {tab3.dump()}')
    ret = ast.parse(tab3.rows[0].outcome[1], mode='eval').body
    sh = _xbit_shape(ret)
    if sh is None:
        raise Undecided(f'is_executable: `{short(ret)}` is not of the form bool(os.stat(path).st_mode & MASK)')
    statcall, xmask = sh
    ctx.require(bool(statcall.args) and norm(statcall.args[0]) == 'ARG1', 'is_executable: stats its own path argument', mod, 'is_executable', ie,
                f'is_executable stats `{short(statcall.args[0]) if statcall.args else "?"}`, not its path parameter')
    missing = [n for n, bit in (('owner', 0o100), ('group', 0o010), ('other', 0o001)) if not xmask & bit]
    ctx.require(xmask == 0o111, 'is_executable: mask folds to S_IXUSR|S_IXGRP|S_IXOTH (any execute bit)', mod, 'is_executable', ie,
                f'the execute-bit mask folds to {xmask:#o}' + (f': the {"/".join(missing)} execute bit is not tested, so a file executable only for {missing[0]} '
                                                               f'is installed with 0o666-based permissions' if missing else ': it tests bits that are not execute bits'))


def _perm_shape(e: ast.AST) -> T.Optional[T.Tuple[ast.Call, int, int, str, bool]]:
    """(probe call, bits if probe true, bits if false, mask operand text, mask complemented?) of `(A if P else B) & [~]M`."""
    if not (isinstance(e, ast.BinOp) and isinstance(e.op, ast.BitAnd)):
        return None
    for sel, msk in ((e.left, e.right), (e.right, e.left)):
        if not isinstance(sel, ast.IfExp):
            continue
        test, yes, no = sel.test, sel.body, sel.orelse
        if isinstance(test, ast.UnaryOp) and isinstance(test.op, ast.Not):
            test, yes, no = test.operand, no, yes
        a, b = U.const_int(yes), U.const_int(no)
        if not (isinstance(test, ast.Call) and norm(test.func) == 'is_executable') or a is None or b is None:
            return None
        comp = isinstance(msk, ast.UnaryOp) and isinstance(msk.op, ast.Invert)
        m = msk.operand if comp else msk   # type: ignore[union-attr]
        if attr_chain(m) is None:
            return None
        return test, a, b, norm(m), comp
    return None


def _flat_shape(e: ast.AST) -> T.Optional[T.Tuple[int, str, bool]]:
    """(folded bits, mask operand text, mask complemented?) of `CONST & [~]M`."""
    if not (isinstance(e, ast.BinOp) and isinstance(e.op, ast.BitAnd)):
        return None
    for c, msk in ((e.left, e.right), (e.right, e.left)):
        v = U.const_int(c)
        if v is None:
            continue
        comp = isinstance(msk, ast.UnaryOp) and isinstance(msk.op, ast.Invert)
        mm = msk.operand if comp else msk   # type: ignore[union-attr]
        if attr_chain(mm) is None:
            return None
        return v, norm(mm), comp
    return None


def _xbit_shape(e: ast.AST) -> T.Optional[T.Tuple[ast.Call, int]]:
    """(stat call, folded mask) of  bool(S.st_mode & M)  |  (S.st_mode & M) != 0  |  S.st_mode & M."""
    if isinstance(e, ast.Call) and norm(e.func) == 'bool' and len(e.args) == 1 and not e.keywords:
        e = e.args[0]
    elif isinstance(e, ast.Compare) and len(e.ops) == 1 and isinstance(e.ops[0], ast.NotEq) and U.const_int(e.comparators[0]) == 0:
        e = e.left
    if not (isinstance(e, ast.BinOp) and isinstance(e.op, ast.BitAnd)):
        return None
    for val, msk in ((e.left, e.right), (e.right, e.left)):
        mk = U.const_int(msk)
        if mk is None:
            continue
        if isinstance(val, ast.Attribute) and val.attr == 'st_mode' and isinstance(val.value, ast.Call) and norm(val.value.func) in ('os.stat', 'os.lstat'):
            return val.value, mk
    return None


def r5(ctx: RuleCtx) -> None:
    ex = Rec()
    _r5_bits(ex, U.synthetic_module('example/minstall.py', R5_EXAMPLE))
    if sorted(f for f, _, _ in ex.v) != ['is_executable', 'sanitize_permissions'] or len(ex.oks) != 5:
        raise AnalysisError(f'C11.R5 built-in example not recognised: {ex.v} {ex.oks}')
    ctx.ok('built-in example: default bits 0755/0644 and an owner-only execute test are flagged; preserve / no-follow are clean', nontrivial=False)
    m = _model(ctx)
    mod = m.mod
    # ---- set_mode ----
    fn = mod.func('set_mode')
    tab = tables.extract(fn, effects=_assign_eff, name='set_mode')
    A = lambda f: Atom('is', (f'ARG2.{f}', 'None'))
    mode_none = Atom('is', ('ARG2', 'None'))
    win = Atom('truth', ('is_windows()',))
    sem: T.Dict[Atom, str] = {mode_none: 'mode_none', A('perms_s'): 'perms_none', A('owner'): 'owner_none', A('group'): 'group_none', win: 'windows'}
    all_atoms: T.Dict[Atom, T.List[str]] = {}
    derived: T.Dict[Atom, ast.AST] = {}
    for a in tab.atoms():
        if a in sem:
            continue
        fields = _all_none_fields(a)
        if fields is None:
            # a compound test bound to a local first (`have_owner = mode.owner is not None or ...`): its value is a function
            # of the reference atoms; it must be decided by them in every world
            if a.kind != 'truth':
                raise Undecided(f'set_mode: atom outside the reference vocabulary: {a!r}')
            try:
                derived[a] = ast.parse(a.args[0], mode='eval').body
            except SyntaxError:
                raise Undecided(f'set_mode: atom outside the reference vocabulary: {a!r}')
            continue
        all_atoms[a] = fields
    bad: T.Dict[str, str] = {}
    nw = 0
    for w in tab.worlds(list(sem)):
        v = {k: w[a] for a, k in sem.items()}
        if v['mode_none'] and not (v['perms_none'] and v['owner_none'] and v['group_none']):
            continue    # no mode object: its fields do not exist
        consistent = True
        for a, fields in all_atoms.items():
            if not v['mode_none'] and w[a] != all(v[f'{f}_none'] for f in fields):
                consistent = False
        facts = {repr(a): w[a] for a in sem}
        for a, e in derived.items():
            val = U.tv(e, facts)
            if val is None:
                raise Undecided(f'set_mode: test `{a!r}` is not a combination of the reference atoms {sorted(facts)}')
            if not v['mode_none'] and w[a] != val:
                consistent = False
        if not consistent:
            continue
        rows = tab.fire({a: x for a, x in w.items()})
        rows = [r for r in rows if all(w.get(a) == x for a, x in r.conds.items())]
        if v['mode_none']:
            rows = tab.fire({**w})
        nw += 1
        if len(rows) != 1:
            # with mode None only the first test is evaluated; rows that mention field atoms are infeasible there
            rows = [r for r in rows if not v['mode_none'] or all(a == mode_none for a in r.conds)]
            if len(rows) != 1:
                raise Undecided(f'set_mode: {len(rows)} rows fire for {v}')
        eff_calls = [e[len('call '):] for e in rows[0].effects if e.startswith('call ')]
        relevant = []
        for e_ in eff_calls:
            fnm_ = e_.split('(', 1)[0]
            if fnm_ in ('sanitize_permissions', 'set_chown', 'set_chmod'):
                relevant.append(e_)
            elif fnm_ in m.mut or fnm_.startswith(('os.', 'shutil.')):
                raise Undecided(f'set_mode: performs `{short(e_, 60)}`, which is outside the reference vocabulary of the permission table')
        got = [_bound_call(mod, e_) for e_ in relevant]
        if v['mode_none'] or (v['perms_none'] and v['owner_none'] and v['group_none']):
            want = [_bound_call(mod, 'sanitize_permissions(ARG1, ARG3)')]
        else:
            want = []
            if not v['windows'] and not (v['owner_none'] and v['group_none']):
                want.append(_bound_call(mod, 'set_chown(ARG1, ARG2.owner, ARG2.group, follow_symlinks=False)'))
            want.append(_bound_call(mod, 'sanitize_permissions(ARG1, ARG3)' if v['perms_none'] else 'set_chmod(ARG1, ARG2.perms, follow_symlinks=False)'))
        if got != want:
            bad.setdefault(repr(rows[0]), f'row `{short(repr(rows[0]), 160)}` performs {got}; the reference (no mode -> default permissions masked by the umask; owner/group before the '
                                          f'permission bits, never on Windows; explicit perms -> chmod(perms) else sanitise) requires {want} for {v}')
    for k, msg in bad.items():
        ctx.violation(mod, 'set_mode', k, msg, fn)
    if not bad:
        ctx.ok(f'set_mode: {len(tab.rows)} rows equal the reference permission table on {nw} worlds')

    _r5_bits(ctx, mod)

    # ---- call sites: the item's install_mode and the install umask (a value that arrives through a parameter of an Installer
    # helper is judged at the helper's call sites) ----
    nsites = 0

    def sources(meth: str, e: ast.AST, depth: int = 0) -> T.List[T.Tuple[str, ast.AST, ast.Call]]:
        fnm = m.inst[meth]
        if isinstance(e, ast.Name) and e.id in U.params_of(fnm) and not Flow(fnm, nested=False).defs.get(e.id) and depth < 3:
            out: T.List[T.Tuple[str, ast.AST, ast.Call]] = []
            for q2, f3 in m.inst.items():
                for c2 in calls_in(f3):
                    if _self_method(c2) == meth:
                        a_ = U.bind_args(c2, fnm).get(e.id)
                        if a_ is not None:
                            out += sources(q2, a_, depth + 1)
            if out:
                return out
        return [(meth, e, None)]   # type: ignore[list-item]
    for name, fn2 in m.inst.items():
        if name in m.dry.wrappers():
            continue
        for c in calls_in(fn2):
            if _self_method(c) != 'set_mode':
                continue
            nsites += 1
            a_mode, a_umask = _wrapper_arg(m, c, 1), _wrapper_arg(m, c, 2)
            if a_mode is None or a_umask is None:
                raise Undecided(f'Installer.{name}: set_mode call shape {short(c)}')
            for q2, e2, _ in sources(name, a_umask):
                e2 = _through_locals(m.inst[q2], e2)
                d = _install_data_param(m.inst[q2])
                ok_u = d is not None and norm(e2) == f'{d}.install_umask'
                if not ok_u and isinstance(e2, ast.Name) and e2.id in U.params_of(m.inst[q2]):
                    raise Undecided(f'Installer.{q2}: the umask for set_mode arrives through parameter `{e2.id}` of a method that is not called inside the class')
                ctx.require(ok_u, f'Installer.{q2}: set_mode(..., {norm(e2)}) uses the install umask of the InstallData', mod, f'Installer.{q2}', c if q2 == name else e2,
                            f'set_mode is given `{short(e2)}` as default umask instead of {d}.install_umask: default permissions are not masked by install_umask', c)
            for q2, e2, _ in sources(name, a_mode):
                org = Flow(m.inst[q2], nested=False).origins(e2)
                if isinstance(e2, ast.Name) and e2.id in U.params_of(m.inst[q2]) and not any(o.startswith('attr:') for o in org):
                    raise Undecided(f'Installer.{q2}: the mode for set_mode arrives through parameter `{e2.id}` of a method that is not called inside the class')
                ctx.require(any(o.startswith('attr:') and o.endswith('.install_mode') for o in org) and 'const' not in org,
                            f'Installer.{q2}: set_mode(_, {norm(e2)}, _) passes the item\'s declared install_mode', mod, f'Installer.{q2}', c if q2 == name else e2,
                            f'the mode handed to set_mode (`{short(e2)}`, origins {sorted(org)}) is not the install_mode of the item being installed', c)
    ctx.floor('set_mode call sites', nsites, 1)
    # the process umask is the install umask unless 'preserve'
    do = mod.func('Installer.do_install')
    cfg = CFG(do)
    um_nodes = cfg.nodes_with_call(lambda c: U.dotted(mod, c.func) == 'os.umask')
    if len(um_nodes) != 1:
        raise Undecided(f'do_install: {len(um_nodes)} os.umask calls')
    ucall = [c for c in calls_in(do) if U.dotted(mod, c.func) == 'os.umask'][0]
    arg = norm(ucall.args[0]) if ucall.args else ''
    if not arg.endswith('.install_umask'):
        ctx.violation(mod, 'Installer.do_install', ucall, f'os.umask is set to `{arg}`, not to the install umask', ucall)
        return
    alias = U.single_def_aliases(do)
    pres_f = {f"{arg} == 'preserve'": True}
    int_f = {f"{arg} == 'preserve'": False}
    eff = _effectful(m)
    en = _effect_nodes(m, cfg, eff, flags=())
    r_pres = U.feasible_reach(cfg, [cfg.entry], pres_f, alias)
    r_int = U.feasible_reach(cfg, [cfg.entry], int_f, alias, avoid=um_nodes)
    ctx.require(um_nodes[0].id not in r_pres, "do_install: with install_umask 'preserve' the process umask is left alone", mod, 'Installer.do_install', ucall,
                "os.umask(...) is reached although install_umask is 'preserve'", ucall)
    early = [cfg.nodes[i] for i in sorted(r_int & set(en))]
    ctx.require(not early, 'do_install: with an integer install_umask os.umask(install_umask) precedes every installer', mod, 'Installer.do_install', ucall,
                f'{", ".join(en[early[0].id]) if early else ""} can run before os.umask({arg}): new directories would be created with the caller\'s umask', ucall)


def _through_locals(fn: U.FuncNode, e: ast.AST) -> ast.AST:
    """`um = d.install_umask ... f(um)`: a single-binding local read back as its value."""
    al = U.single_def_aliases(fn)
    for _ in range(3):
        if isinstance(e, ast.Name) and e.id in al:
            e = al[e.id]
        else:
            break
    return e


def _bound_call(mod: Module, text: str) -> str:
    """A call to a module-level function of minstall.py with every argument bound to its parameter (keyword or positional alike)."""
    try:
        e = ast.parse(text, mode='eval').body
    except SyntaxError:
        return text
    if isinstance(e, ast.Call) and isinstance(e.func, ast.Name) and mod.has_func(e.func.id):
        return U.canon_call(e, mod.func(e.func.id), drop_self=False)
    return norm(e)


def _all_none_fields(a: Atom) -> T.Optional[T.List[str]]:
    """`all(m is None for m in [ARG2.x, ARG2.y])` -> ['x', 'y'] (field names without the _s suffix mapping)."""
    if a.kind != 'truth':
        return None
    try:
        e = ast.parse(a.args[0], mode='eval').body
    except SyntaxError:
        return None
    if not (isinstance(e, ast.Call) and norm(e.func) == 'all' and len(e.args) == 1 and isinstance(e.args[0], (ast.GeneratorExp, ast.ListComp))):
        return None
    g = e.args[0]
    if len(g.generators) != 1 or g.generators[0].ifs or not isinstance(g.generators[0].target, ast.Name):
        return None
    v = g.generators[0].target.id
    if norm(g.elt) != f'{v} is None' or not isinstance(g.generators[0].iter, (ast.List, ast.Tuple)):
        return None
    out = []
    for x in g.generators[0].iter.elts:
        ch = attr_chain(x)
        if not ch or not ch.startswith('ARG2.'):
            return None
        f = ch.split('.', 1)[1]
        out.append({'perms_s': 'perms'}.get(f, f))
    if not set(out) <= {'perms', 'owner', 'group'}:
        return None
    return out


# =============================================================================================
# R5b symbolic permission string -> mode bits (K5: table agreement with the `ls -l` / stat.filemode notation)

UNIV = 'mesonbuild/utils/universal.py'
_B = U.STAT_CONSTS
# reference: Python library reference, stat.filemode(); POSIX ls -l.  position -> character -> bits
PERM_REF: T.Dict[int, T.Dict[str, int]] = {
    0: {'r': _B['S_IRUSR']}, 1: {'w': _B['S_IWUSR']},
    2: {'x': _B['S_IXUSR'], 'S': _B['S_ISUID'], 's': _B['S_ISUID'] | _B['S_IXUSR']},
    3: {'r': _B['S_IRGRP']}, 4: {'w': _B['S_IWGRP']},
    5: {'x': _B['S_IXGRP'], 'S': _B['S_ISGID'], 's': _B['S_ISGID'] | _B['S_IXGRP']},
    6: {'r': _B['S_IROTH']}, 7: {'w': _B['S_IWOTH']},
    8: {'x': _B['S_IXOTH'], 'T': _B['S_ISVTX'], 't': _B['S_ISVTX'] | _B['S_IXOTH']},
}


def _bit_names(v: int) -> str:
    names = [n for n, b in _B.items() if bin(b).count('1') == 1 and v & b]
    return '|'.join(sorted(names, key=lambda n: -_B[n])) or '0'


def _pos_atom(a: Atom) -> T.Optional[T.Tuple[int, T.Set[str]]]:
    """`ARG1[i] == 'c'` / `ARG1[i] in 'abc'` / `ARG1[i] in ('a', 'b')` -> (i, characters for which the atom is true)."""
    if a.kind == 'cmp' and a.args[0] == 'eq':
        subj, const = a.args[1], a.args[2]
    elif a.kind == 'in':
        subj, const = a.args[0], a.args[1]
    else:
        return None
    try:
        se, ce = ast.parse(subj, mode='eval').body, ast.parse(const, mode='eval').body
    except SyntaxError:
        return None
    if not (isinstance(se, ast.Subscript) and norm(se.value) == 'ARG1' and isinstance(se.slice, ast.Constant) and isinstance(se.slice.value, int)):
        return None
    if a.kind == 'cmp':
        if isinstance(ce, ast.Constant) and isinstance(ce.value, str) and len(ce.value) == 1:
            return se.slice.value, {ce.value}
        return None
    if isinstance(ce, ast.Constant) and isinstance(ce.value, str):
        return se.slice.value, set(ce.value)
    if isinstance(ce, (ast.Tuple, ast.List, ast.Set)) and all(isinstance(x, ast.Constant) and isinstance(x.value, str) and len(x.value) == 1 for x in ce.elts):
        return se.slice.value, {x.value for x in ce.elts}   # type: ignore[attr-defined]
    return None


def _perm_table(fn: U.FuncNode) -> T.Dict[T.Tuple[int, str], int]:
    """(position, character) -> folded bits or-ed into the result, read from the per-position decision tables of the function."""
    rets = [st for st in fn.body if isinstance(st, ast.Return)]
    if len(rets) != 1 or not isinstance(rets[0].value, ast.Name) or fn.body[-1] is not rets[0]:
        raise Undecided('perms_s_to_bits: does not end in `return <accumulator>`')
    acc = rets[0].value.id
    contrib: T.Dict[int, T.List[T.Tuple[T.Dict[Atom, T.Set[str]], tables.Table]]] = {}
    init = 0
    for st in fn.body[:-1]:
        writes = any(isinstance(n, ast.Name) and n.id == acc and isinstance(n.ctx, ast.Store) for n in ast.walk(st))
        if not writes:
            continue
        if isinstance(st, (ast.Assign, ast.AnnAssign)) and not isinstance(st, ast.If):
            v = U.const_int(st.value) if st.value is not None else None
            if v != 0:
                raise Undecided(f'perms_s_to_bits: accumulator initialised with `{short(st.value)}`')
            init += 1
            continue
        if not isinstance(st, ast.If):
            raise Undecided(f'perms_s_to_bits: the accumulator is written by a statement that is not an if-chain: {short(st)}')
        tab = tables.extract(fn, body=[st], effects=_assign_eff, inline=False, name='perms_s_to_bits')
        atoms: T.Dict[Atom, T.Set[str]] = {}
        poss: T.Set[int] = set()
        for a in tab.atoms():
            pa = _pos_atom(a)
            if pa is None:
                raise Undecided(f'perms_s_to_bits: test `{a!r}` is not a test of one character position of the permission string')
            atoms[a] = pa[1]
            poss.add(pa[0])
        if len(poss) != 1:
            raise Undecided(f'perms_s_to_bits: one if-chain tests positions {sorted(poss)}')
        contrib.setdefault(poss.pop(), []).append((atoms, tab))
    if init != 1:
        raise Undecided('perms_s_to_bits: the accumulator is not initialised exactly once with 0')
    out: T.Dict[T.Tuple[int, str], int] = {}
    for pos, parts in contrib.items():
        chars = set(PERM_REF.get(pos, {})) | {c for atoms, _ in parts for cs in atoms.values() for c in cs} | {'-'}
        for c in sorted(chars):
            bits = 0
            for atoms, tab in parts:
                rows = tab.fire({a: (c in cs) for a, cs in atoms.items()})
                if len(rows) != 1:
                    raise Undecided(f'perms_s_to_bits: {len(rows)} rows for character {c!r} at position {pos}')
                if rows[0].outcome != ('fall',):
                    raise Undecided(f'perms_s_to_bits: the chain for position {pos} leaves the function ({rows[0].outcome})')
                for e in rows[0].effects:
                    val = None
                    if e.startswith(f'{acc} |= '):
                        val = U.const_int(ast.parse(e[len(acc) + 4:], mode='eval').body)
                    elif e.startswith(f'{acc} := '):
                        b = ast.parse(e[len(acc) + 4:], mode='eval').body
                        if isinstance(b, ast.BinOp) and isinstance(b.op, ast.BitOr):
                            sides = [x for x in (b.left, b.right) if norm(x) != acc]
                            if len(sides) == 1:
                                val = U.const_int(sides[0])
                    if val is None:
                        raise Undecided(f'perms_s_to_bits: effect `{e}` is not `{acc} |= <stat constants>`')
                    bits |= val
            out[(pos, c)] = bits
    return out


R5B_EXAMPLE = """
import stat
class FileMode:
    @classmethod
    def perms_s_to_bits(cls, perms_s):
        perms = 0
        if perms_s[2] == 'x':
            perms |= stat.S_IXUSR
        elif perms_s[2] == 's':
            perms |= stat.S_IXUSR
            perms |= stat.S_ISGID
        return perms
"""


def _perm_mismatches(got: T.Dict[T.Tuple[int, str], int]) -> T.List[T.Tuple[int, str, int, int]]:
    out = []
    for pos in range(9):
        for c in sorted(set(PERM_REF[pos]) | {ch for (p_, ch) in got if p_ == pos} | {'-'}):
            want = PERM_REF[pos].get(c, 0)
            have = got.get((pos, c), 0)
            if have != want:
                out.append((pos, c, have, want))
    return out


def r5b(ctx: RuleCtx) -> None:
    exm = U.synthetic_module('example/universal.py', R5B_EXAMPLE)
    mm = _perm_mismatches(_perm_table(exm.func('FileMode.perms_s_to_bits')))
    if (2, 's', _B['S_IXUSR'] | _B['S_ISGID'], _B['S_IXUSR'] | _B['S_ISUID']) not in mm or any(p_ == 2 and c == 'x' for p_, c, _, _ in mm):
        raise AnalysisError(f'C11.R5b built-in example not recognised: {mm}')
    ctx.ok("built-in example: 's' in the owner triad or-ing S_ISGID is flagged, 'x' -> S_IXUSR is clean", nontrivial=False)
    mod = U.nmodule(ctx.repo, UNIV)
    fn = mod.func('FileMode.perms_s_to_bits')
    got = _perm_table(fn)
    ctx.floor('(position, character) entries read from perms_s_to_bits', len(got), 1)
    bad = {(p_, c) for p_, c, _, _ in _perm_mismatches(got)}
    for p_, c, have, want in _perm_mismatches(got):
        triad = ('owner', 'group', 'others')[p_ // 3]
        ctx.violation(mod, 'FileMode.perms_s_to_bits', f'perms_s[{p_}] == {c!r}',
                      f'character {c!r} at position {p_} ({triad} triad) contributes {_bit_names(have)}; in the stat.filemode / `ls -l` notation it means {_bit_names(want)} '
                      f'(e.g. install_mode {"".join(c if i == p_ else "rwxr-xr-x"[i] for i in range(9))!r} installs with the wrong special/permission bits)', fn)
    for pos in range(9):
        for c in sorted(set(PERM_REF[pos]) | {'-'}):
            if (pos, c) not in bad:
                ctx.ok(f'perms_s[{pos}] == {c!r} -> {_bit_names(PERM_REF[pos].get(c, 0))}')
    # the validation regex admits exactly the characters the table gives a meaning to
    from ..consteval import fold_expr, Regex
    from .. import rx
    rxv = fold_expr(ctx.repo, mod, mod.assign_value('symbolic_perms_regex', mod.cls('FileMode')))
    if not isinstance(rxv, Regex):
        raise Undecided('FileMode.symbolic_perms_regex does not fold to a regular expression')
    items = [it for it in rx.parse(rxv.pattern, rxv.flags)]
    if len(items) != 9 or any(str(op) != 'IN' for op, _ in items):
        raise Undecided(f'symbolic_perms_regex is not nine character classes: {rxv.pattern!r}')
    universe = 'rwxsStT-' + 'abcdefghijklmnopquvyzRWXA0-9 '
    for pos, (_, av) in enumerate(items):
        adm = rx.class_chars(av, set(universe))
        want = set(PERM_REF[pos]) | {'-'}
        ctx.require(adm == want, f'regex position {pos} admits exactly {sorted(want)}', mod, 'FileMode', f'symbolic_perms_regex[{pos}]',
                    f'the validation regex admits {sorted(adm)} at position {pos}; the notation (and the bit table) knows {sorted(want)}: '
                    f'{"an admitted character is silently ignored" if adm - want else "a documented character is rejected"}')
    # FileMode.perms is the table applied to the declared string, nothing else writes it
    writers = [(q, n) for q, f in mod.funcs().items() if q.startswith('FileMode.') for n in ast.walk(f)
               if isinstance(n, ast.Assign) and any(isinstance(t, ast.Attribute) and t.attr == 'perms' and norm(t.value) == 'self' for t in n.targets)]
    init = mod.func('FileMode.__init__')
    ps = U.params_of(init)
    ok = len(writers) == 1 and writers[0][0] == 'FileMode.__init__' and isinstance(writers[0][1].value, ast.Call) \
        and norm(writers[0][1].value.func) in ('self.perms_s_to_bits', 'FileMode.perms_s_to_bits', 'type(self).perms_s_to_bits') \
        and len(writers[0][1].value.args) == 1 and norm(writers[0][1].value.args[0]) in ps + ['self.perms_s']
    ctx.require(ok, 'FileMode.perms is written once, as perms_s_to_bits(<declared string>)', mod, 'FileMode.__init__', writers[0][1] if writers else init,
                'FileMode.perms is not (only) the converted install_mode string: set_mode would chmod to something the build definition did not declare')


# =============================================================================================
# R6 remove-before-create: the existence probe of a symlink destination must not follow symlinks

PROBES_NOFOLLOW = {'os.path.lexists', 'os.path.islink'}
PROBES_FOLLOW = {'os.path.exists', 'os.path.isfile', 'os.path.isdir'}
# what each probe answers for the kinds of entry that may already sit at the destination (os.path documentation)
ENTRY_KINDS: T.Dict[str, T.Dict[str, bool]] = {
    'a dangling symlink': {'lexists': True, 'islink': True, 'exists': False, 'isfile': False, 'isdir': False},
    'a symlink to a file': {'lexists': True, 'islink': True, 'exists': True, 'isfile': True, 'isdir': False},
    'a symlink to a directory': {'lexists': True, 'islink': True, 'exists': True, 'isfile': False, 'isdir': True},
    'a regular file': {'lexists': True, 'islink': False, 'exists': True, 'isfile': True, 'isdir': False},
    'a directory': {'lexists': True, 'islink': False, 'exists': True, 'isfile': False, 'isdir': True},
}

R6_EXAMPLE = """
import os
class DirMaker:
    def __init__(self, lf, makedirs):
        self.makedirs_impl = makedirs
class Installer:
    def remove(self, *args, **kwargs):
        if not self.dry_run:
            os.remove(*args, **kwargs)
    def symlink(self, *args, **kwargs):
        if not self.dry_run:
            os.symlink(*args, **kwargs)
    def good(self, target, link):
        if os.path.islink(link) or os.path.exists(link):
            self.remove(link)
        self.symlink(target, link)
    def bad(self, target, link):
        if os.path.exists(link):
            self.remove(link)
        self.symlink(target, link)
"""


class LinkSite(T.NamedTuple):
    method: str
    call: ast.Call
    dest: str
    failing: T.List[str]        # entry kinds for which creation is reachable without removal
    probes: T.List[str]


def _symlink_sites(m: Model) -> T.List[LinkSite]:
    """Remove-before-create sites: an Installer method that removes what sits at a destination parameter and then creates an entry
    there (a symlink via os.symlink, or a copy that may itself be a symlink / would be written *through* a symlink left behind)."""
    mod = m.mod
    wr = m.dry.wrappers()
    creators = {w for w, ss in wr.items() if {s.ref.name for s in ss} & (U.CREATORS | {'os.symlink'})}
    removers = {w for w, ss in wr.items() if {s.ref.name for s in ss} <= {'os.remove', 'os.unlink'}}
    out: T.List[LinkSite] = []
    for name, fn in m.inst.items():
        if name in wr:
            continue
        fl = Flow(fn, nested=False)
        ps = U.params_of(fn)
        is_remove = lambda x: (_self_method(x) in removers or U.dotted(mod, x.func) in ('os.remove', 'os.unlink')) and U.call_arg(x, 0, 'path') is not None
        dests = list(dict.fromkeys(norm(U.call_arg(x, 0, 'path')) for x in calls_in(fn) if is_remove(x)))
        # a symlink creation needs the removal even if none is written (yet): os.symlink never overwrites
        for c in calls_in(fn):
            if _self_method(c) in wr and {s_.ref.name for s_ in wr[_self_method(c)]} & {'os.symlink'}:      # type: ignore[index]
                de0 = U.call_arg(c, 1, 'dst')
                if de0 is None:
                    raise Undecided(f'Installer.{name}: symlink call shape {short(c)}')
                if not (isinstance(de0, ast.Name) and de0.id in ps and not fl.defs.get(de0.id)):
                    raise Undecided(f'Installer.{name}: symlink destination `{short(de0)}` is not an unmodified parameter')
                if de0.id not in dests:
                    dests.append(de0.id)
        for dest in dests:
            if not (dest in ps and not fl.defs.get(dest)):
                continue           # only destinations that are unmodified parameters are judged
            # creation calls whose destination is `dest` or is derived from it (directory of it, through locals)
            def mentions(e: ast.AST, depth: int = 0) -> bool:
                for n_ in ast.walk(e):
                    if isinstance(n_, ast.Name):
                        if n_.id == dest:
                            return True
                        if depth < 3 and n_.id not in ps and any(mentions(d_, depth + 1) for d_ in fl.defs.get(n_.id, [])):
                            return True
                return False
            ccalls = []
            for c in calls_in(fn):
                if _self_method(c) in creators:
                    de = _wrapper_arg(m, c, 1)
                    if de is not None and mentions(de):
                        ccalls.append(c)
            if not ccalls:
                continue
            cfg = CFG(fn)
            rem = [n for n in cfg.nodes_with_call(lambda x: is_remove(x) and norm(U.call_arg(x, 0, 'path')) == dest)]
            probes: T.Dict[str, str] = {}
            for x in calls_in(fn):
                dn = U.dotted(mod, x.func)
                if dn in PROBES_FOLLOW | PROBES_NOFOLLOW and len(x.args) == 1 and norm(x.args[0]) == dest:
                    probes[norm(x)] = dn.rsplit('.', 1)[1]
            alias = U.single_def_aliases(fn)
            for n_ in cfg.nodes:
                if n_.kind == 'test':
                    for x in walk_no_nested(n_.ast.test):   # type: ignore[union-attr]
                        if isinstance(x, ast.Call) and norm(x) not in probes and _self_method(x) is None \
                                and any(isinstance(y, ast.Name) and y.id == dest for a_ in list(x.args) + [x.func] for y in ast.walk(a_)):
                            raise Undecided(f'Installer.{name}: the test `{short(x)}` of `{dest}` is not one of the classified os.path probes')
            cnodes = [n for c in ccalls for n in U.node_of(cfg, c)]
            free = U.feasible_reach(cfg, [cfg.entry], {'self.dry_run': False, **{k: False for k in probes}}, alias, avoid=rem)
            if not any(n.id in free for n in cnodes):
                raise Undecided(f'Installer.{name}: nothing is created even when nothing exists at `{dest}`')
            failing = []
            live = {'self.dry_run': False}       # the removal wrappers act only when not dry-run; judge the real install
            live.update(_predicate_facts(m, lambda ps_: {'self.dry_run': False}, []))
            for kind, ans in ENTRY_KINDS.items():
                facts = {**live, **{k: ans[p] for k, p in probes.items()}}
                reach = U.feasible_reach(cfg, [cfg.entry], facts, alias, avoid=rem)
                if any(n.id in reach for n in cnodes):
                    failing.append(kind)
            out.append(LinkSite(name, ccalls[0], dest, failing, sorted(set(probes.values()))))
    return out


CREATABLE = ('a regular file', 'a dangling symlink', 'a symlink to a file', 'a symlink to a directory')   # what do_copyfile itself leaves behind


class BlockSite(T.NamedTuple):
    method: str
    call: ast.Call
    dest: str
    blocked: T.List[str]
    probes: T.List[str]
    test: T.Optional[ast.AST]


def _reinstall_blocks(m: Model) -> T.List[BlockSite]:
    """In a loop that hands a locally computed destination to self.do_copyfile: for every kind of entry a previous run of the same
    installer can have left there, the copy must still be reachable (not cut off by a rejection such as sys.exit / raise under a
    probe that follows symlinks)."""
    mod = m.mod
    out: T.List[BlockSite] = []
    if 'do_copyfile' not in m.inst:
        return out
    copyfn = m.inst['do_copyfile']
    for name, fn in m.inst.items():
        if name in m.dry.wrappers() or name == 'do_copyfile':
            continue
        loops = [st for st in walk_no_nested(fn) if isinstance(st, ast.For)]
        for c in calls_in(fn):
            if _self_method(c) != 'do_copyfile':
                continue
            try:
                de = U.bind_args(c, copyfn).get('to_file')
            except Undecided:
                continue
            encl = [l for l in loops if l.lineno <= c.lineno <= (l.end_lineno or 0)]
            if not isinstance(de, ast.Name) or not encl:
                continue
            dest = de.id
            probes: T.Dict[str, str] = {}
            for x in calls_in(fn):
                dn = U.dotted(mod, x.func)
                if dn in PROBES_FOLLOW | PROBES_NOFOLLOW and len(x.args) == 1 and norm(x.args[0]) == dest:
                    probes[norm(x)] = dn.rsplit('.', 1)[1]
            if not probes:
                continue
            cfg = CFG(fn)
            it = _iter_node(cfg, max(encl, key=lambda l: l.lineno))
            exits = cfg.nodes_with_call(lambda x: norm(x.func) in ('sys.exit', 'exit', 'os._exit'))
            alias = U.single_def_aliases(fn)
            cnodes = U.node_of(cfg, c)
            # other tests of the destination that the rule cannot classify make the verdict undecided
            for n_ in cfg.nodes:
                if n_.kind == 'test' and it.lineno <= n_.lineno <= (max(encl, key=lambda l: l.lineno).end_lineno or 0):
                    for x in walk_no_nested(n_.ast.test):   # type: ignore[union-attr]
                        if isinstance(x, ast.Call) and norm(x) not in probes and _self_method(x) is None and (U.dotted(mod, x.func) or '').startswith('os.path.is') \
                                and any(isinstance(y, ast.Name) and y.id == dest for a_ in x.args for y in ast.walk(a_)):
                            raise Undecided(f'Installer.{name}: the test `{short(x)}` of `{dest}` is not one of the classified os.path probes')
            free = U.feasible_reach(cfg, [it], {k: False for k in probes}, alias, avoid=[it] + exits, skip_labels={'done'}, no_exc=True)
            if not any(n.id in free for n in cnodes):
                raise Undecided(f'Installer.{name}: the copy to `{dest}` is not reached even when nothing exists there')
            blocked = []
            for kind in CREATABLE:
                facts = {k: ENTRY_KINDS[kind][p_] for k, p_ in probes.items()}
                reach = U.feasible_reach(cfg, [it], facts, alias, avoid=[it] + exits, skip_labels={'done'}, no_exc=True)
                if not any(n.id in reach for n in cnodes):
                    blocked.append(kind)
            test = None
            if blocked:
                facts = {k: ENTRY_KINDS[blocked[0]][p_] for k, p_ in probes.items()}
                for n_ in cfg.nodes:
                    if n_.kind == 'test' and any(norm(x) in probes for x in walk_no_nested(n_.ast.test) if isinstance(x, ast.Call)) \
                            and U.tv(n_.ast.test, facts, alias) is True:       # type: ignore[union-attr]
                        test = n_.ast.test      # type: ignore[union-attr]
                        break
            out.append(BlockSite(name, c, dest, blocked, sorted(set(probes.values())), test))
    return out


def r6(ctx: RuleCtx) -> None:
    ex = {s.method: s.failing for s in _symlink_sites(Model(U.synthetic_module('example/minstall.py', R6_EXAMPLE)))}
    if ex != {'good': [], 'bad': ['a dangling symlink']}:
        raise AnalysisError(f'C11.R6 built-in example not recognised: {ex}')
    ctx.ok('built-in example: `exists(link)` before remove+symlink misses a dangling link; `islink(link) or exists(link)` is clean', nontrivial=False)
    m = _model(ctx)
    mod = m.mod
    sites = _symlink_sites(m)
    ctx.floor('remove-before-create sites in Installer', len(sites), 1)
    for s in sites:
        ctx.require(not s.failing, f'Installer.{s.method}: whatever already sits at `{s.dest}` ({len(ENTRY_KINDS)} entry kinds, probes {s.probes}) is removed or rejected before anything is created there',
                    mod, f'Installer.{s.method}', f'remove-before-create of `{s.dest}`',
                    f'when {" / ".join(s.failing)} already exists at `{s.dest}`, {short(s.call, 50)} is reached without self.remove({s.dest}) (probes used: {s.probes}; '
                    f'exists/isfile/isdir follow symlinks, so an entry left by a previous install is not seen): the creation fails with FileExistsError or is written through the old '
                    f'link - installing twice does not give the same tree and log', s.call)


    # a re-install must get as far as the copy for everything the installer itself may have left at the destination
    for b in _reinstall_blocks(m):
        ctx.require(not b.blocked, f'Installer.{b.method}: the copy to `{b.dest}` stays reachable whatever a previous install left there ({len(CREATABLE)} kinds, probes {b.probes})',
                    mod, f'Installer.{b.method}', f're-install of `{b.dest}` blocked by {norm(b.test) if b.test is not None else "a rejection"}',
                    f'when {" / ".join(b.blocked)} (which do_copyfile itself creates for a link in the source tree) already sits at `{b.dest}`, the test '
                    f'`{short(b.test) if b.test is not None else "?"}` follows the link and the iteration is rejected before {short(b.call, 50)}: '
                    f'installing the same tree a second time aborts', b.call)


# =============================================================================================
# R7 mutate-while-iterate (K4) and in-place pruning of os.walk's directory list

RESTRUCTURE = {'remove', 'pop', 'insert', 'append', 'extend', 'clear', 'sort', 'reverse', 'popitem', 'add', 'discard', 'update', 'setdefault',
               'appendleft', 'popleft', 'extendleft'}
COPY_CALLS = {'list', 'tuple', 'sorted', 'set', 'frozenset', 'dict', 'copy.copy', 'copy.deepcopy'}
VIEW_METHODS = {'items', 'keys', 'values'}


def _iter_base(e: ast.AST) -> T.Tuple[T.Optional[str], bool]:
    """(the collection object the loop draws from, is the iteration over a snapshot of it?)"""
    if attr_chain(e) is not None:
        return attr_chain(e), False
    if isinstance(e, ast.Subscript) and isinstance(e.slice, ast.Slice) and e.slice.lower is None and e.slice.upper is None and attr_chain(e.value):
        return attr_chain(e.value), True
    if isinstance(e, ast.Call):
        f = attr_chain(e.func) or ''
        if f in COPY_CALLS and len(e.args) >= 1 and attr_chain(e.args[0]):
            return attr_chain(e.args[0]), True
        if isinstance(e.func, ast.Attribute) and e.func.attr == 'copy' and not e.args and attr_chain(e.func.value):
            return attr_chain(e.func.value), True
        if isinstance(e.func, ast.Attribute) and e.func.attr in VIEW_METHODS and not e.args and attr_chain(e.func.value):
            return attr_chain(e.func.value), False
        if f in ('reversed', 'enumerate', 'iter') and e.args:
            return _iter_base(e.args[0])
    if isinstance(e, (ast.ListComp, ast.SetComp, ast.GeneratorExp)) and len(e.generators) == 1:
        b, _ = _iter_base(e.generators[0].iter)
        return b, not isinstance(e, ast.GeneratorExp)
    return None, True


def _restructures(st: ast.AST, base: str) -> T.List[ast.AST]:
    """Sub-nodes of one statement that add/remove elements of the collection named `base`."""
    out: T.List[ast.AST] = []
    for n in walk_no_nested(st):
        if isinstance(n, ast.Call) and isinstance(n.func, ast.Attribute) and n.func.attr in RESTRUCTURE and attr_chain(n.func.value) == base:
            out.append(n)
        elif isinstance(n, ast.Delete):
            out += [t for t in n.targets if isinstance(t, ast.Subscript) and attr_chain(t.value) == base]
        elif isinstance(n, ast.Assign):
            out += [t for t in n.targets if isinstance(t, ast.Subscript) and isinstance(t.slice, ast.Slice) and attr_chain(t.value) == base]
        elif isinstance(n, ast.AugAssign) and attr_chain(n.target) == base and isinstance(n.op, (ast.Add, ast.BitOr, ast.Sub, ast.BitAnd)):
            out.append(n)
    return out


def _resolved_base(fn: U.FuncNode, e: ast.AST) -> T.Tuple[T.Optional[str], bool, T.Optional[str]]:
    """(_iter_base through single-binding locals: `snap = dirs.copy(); for d in snap` draws from a snapshot of dirs,
    the immediate object iterated)."""
    base, snap = _iter_base(e)
    first = base
    al = U.single_def_aliases(fn)
    for _ in range(3):
        if base is None or base not in al:
            break
        b2, s2 = _iter_base(al[base])
        if b2 is None or b2 == base:
            break
        base, snap = b2, snap or s2
    return base, snap, first


class IterSite(T.NamedTuple):
    func: str
    loop: ast.For
    base: str
    snapshot: bool
    mutations: T.List[ast.AST]      # restructurings of base after which the loop can take another element
    total: int                      # all restructurings of base inside the body


def _iter_sites(mod: Module) -> T.Tuple[T.List[IterSite], int]:
    sites: T.List[IterSite] = []
    nloops = 0
    for q, fn in mod.funcs().items():
        loops = [st for st in walk_no_nested(fn) if isinstance(st, (ast.For, ast.AsyncFor))]
        if not loops:
            continue
        cfg: T.Optional[CFG] = None
        for lp in loops:
            nloops += 1
            root_base, root_snap, base = _resolved_base(fn, lp.iter)
            snap = _iter_base(lp.iter)[1]
            if base is None:
                continue
            if root_base != base and root_snap and not any(_restructures(st_, base) for b_ in lp.body for st_ in ast.walk(b_) if isinstance(st_, ast.stmt)):
                # iterating a local that is itself a snapshot of another collection: judge the loop against that collection
                base, snap = root_base, True   # type: ignore[assignment]
            muts: T.List[T.Tuple[ast.AST, ast.AST]] = []
            for st in lp.body:
                for sub in ast.walk(st):
                    if isinstance(sub, ast.stmt) and not isinstance(sub, (ast.FunctionDef, ast.AsyncFunctionDef, ast.ClassDef)):
                        own = [x for x in _restructures(sub, base)] if not isinstance(sub, (ast.If, ast.For, ast.While, ast.With, ast.Try)) else []
                        muts += [(sub, x) for x in own]
            if not muts:
                continue
            if cfg is None:
                cfg = CFG(fn)
            it = _iter_node(cfg, lp)
            live = []
            for st, x in muts:
                nodes = cfg.stmt_nodes(st)
                if not nodes:
                    raise Undecided(f'{q}: statement `{short(st)}` is not on the CFG')
                if any(cfg.can_reach(n, it) for n in nodes):
                    live.append(x)
            sites.append(IterSite(q, lp, base, snap, live, len(muts)))
    return sites, nloops


R7_EXAMPLE = """
import os
def prune_bad(top, skip):
    for root, dirs, files in os.walk(top):
        for d in dirs:
            if d in skip:
                dirs.remove(d)
def prune_good(top, skip):
    for root, dirs, files in os.walk(top):
        for d in dirs[:]:
            if d in skip:
                dirs.remove(d)
def find_first(items, x):
    for i in items:
        if i == x:
            items.remove(i)
            break
"""


class WalkPrune(T.NamedTuple):
    func: str
    loop: ast.For          # the loop over the walk's directory list
    walk_dirs: str
    problems: T.List[T.Tuple[str, ast.AST]]
    rows: int


def _walk_prunes(mod: Module, q: str, fn: U.FuncNode) -> T.List[WalkPrune]:
    """For `for root, dirs, files in os.walk(top)` with an inner loop over dirs that tests membership in an exclusion set:
    on every excluded row the entry is removed from the walk's own list (top-down walk), so the walk does not descend into it."""
    out: T.List[WalkPrune] = []
    for w in [st for st in walk_no_nested(fn) if isinstance(st, ast.For) and isinstance(st.iter, ast.Call) and U.dotted(mod, st.iter.func) == 'os.walk']:
        if not (isinstance(w.target, ast.Tuple) and len(w.target.elts) == 3 and all(isinstance(x, ast.Name) for x in w.target.elts)):
            raise Undecided(f'{q}: os.walk loop target is not (root, dirs, files)')
        wd = w.target.elts[1].id   # type: ignore[attr-defined]
        problems: T.List[T.Tuple[str, ast.AST]] = []
        td = kwarg(w.iter, 'topdown') if len(w.iter.args) < 2 else w.iter.args[1]   # type: ignore[attr-defined]
        if td is not None and not (isinstance(td, ast.Constant) and td.value is True):
            problems.append((f'os.walk is not top-down (`topdown={short(td)}`): removing entries from `{wd}` no longer stops the descent', w.iter))
        nrows = 0
        for inner in [st for st in w.body if isinstance(st, ast.For)]:
            base = _resolved_base(fn, inner.iter)[0]
            if base != wd or not isinstance(inner.target, ast.Name):
                continue
            var = inner.target.id
            binds = {st.targets[0].id: st.value for b_ in inner.body for st in ast.walk(b_)
                     if isinstance(st, ast.Assign) and len(st.targets) == 1 and isinstance(st.targets[0], ast.Name)}

            def _mentions(e: ast.AST, depth: int = 0) -> bool:
                ns = {n.id for n in ast.walk(e) if isinstance(n, ast.Name)}
                return var in ns or (depth < 4 and any(_mentions(binds[n], depth + 1) for n in ns if n in binds))
            tab = tables.extract(fn, body=inner.body, effects=_assign_eff, inline=True, inline_calls={'relpath', 'join', 'normpath'}, name=f'{q}:dirs')
            # the exclusion test: `<something computed from the loop variable> in <a set that is not one of the walk's lists>`
            excl = []
            for a in tab.atoms():
                if a.kind != 'in' or not a.args[1].isidentifier() or a.args[1] in {x.id for x in w.target.elts}:   # type: ignore[attr-defined]
                    continue
                try:
                    left = ast.parse(a.args[0], mode='eval').body
                except SyntaxError:
                    continue
                if _mentions(left):
                    excl.append(a)
            if len(excl) != 1:
                continue
            for r in tab.rows:
                if r.conds.get(excl[0]) is not True:
                    continue
                nrows += 1
                removed = any(e == f'call {wd}.remove({var})' for e in r.effects)
                created = [e for e in r.effects if e.startswith('call ') and ('.makedirs(' in e or 'self.do_' in e or 'self.copy' in e)]
                if not removed:
                    others = [e for e in r.effects if '.remove(' in e]
                    problems.append((f'an excluded directory (`{excl[0]!r}`) is not removed from the walk\'s own list `{wd}`'
                                     + (f' (the row does {others[0]} instead)' if others else '') + ': os.walk descends into it and its files are installed', inner))
                if created:
                    problems.append((f'an excluded directory still reaches {created[0]}', inner))
        out.append(WalkPrune(q, w, wd, problems, nrows))
    return out


def r7(ctx: RuleCtx) -> None:
    exm = U.synthetic_module('example/walk.py', R7_EXAMPLE)
    sites, _ = _iter_sites(exm)
    got = {s.func: (s.snapshot, len(s.mutations)) for s in sites}
    if got != {'prune_bad': (False, 1), 'prune_good': (True, 1), 'find_first': (False, 0)}:
        raise AnalysisError(f'C11.R7 built-in example not recognised: {got}')
    ctx.ok('built-in example: removing from the list being iterated is flagged; iterating `dirs[:]`, and remove-then-break, are clean', nontrivial=False)
    total_loops = 0
    nsnap = 0
    for rel in (MIN, UNI):
        mod = U.nmodule(ctx.repo, rel)
        sites, nloops = _iter_sites(mod)
        total_loops += nloops
        for s_ in sites:
            if s_.snapshot:
                nsnap += 1
                ctx.ok(f'{s_.func}: loop over a snapshot of `{s_.base}` ({short(s_.loop.iter)}); the body restructures `{s_.base}` {s_.total} time(s)')
                continue
            if s_.mutations:
                m0 = s_.mutations[0]
                ctx.violation(mod, s_.func, f'for {norm(s_.loop.target)} in {norm(s_.loop.iter)}: {short(m0, 60)}',
                              f'the loop iterates `{s_.base}` itself while its body does `{short(m0, 60)}` and then takes the next element: after a removal the '
                              f'following element is skipped (after an insertion one is visited twice); iterate a copy (`{s_.base}[:]`). In do_copydir this installs '
                              f'an excluded directory that follows another excluded one', s_.loop)
            else:
                ctx.ok(f'{s_.func}: `{s_.base}` is restructured inside its loop only on paths that leave the loop')
    ctx.note(f'{total_loops} for-loops scanned in minstall.py / scripts/uninstall.py')
    ctx.note(f'loops that restructure the collection they draw from, over a snapshot: {nsnap}')
    if not nsnap:
        ctx.ok('no loop of minstall.py / uninstall.py restructures the collection it draws from', nontrivial=False)
    # the snapshot must not defeat the pruning: the removal target is the walk's own list
    m = _model(ctx)
    nw = 0
    for name, fn in m.inst.items():
        for wp in _walk_prunes(m.mod, f'Installer.{name}', fn):
            if not wp.rows and not wp.problems:
                continue
            nw += 1
            for msg, node in wp.problems:
                ctx.violation(m.mod, wp.func, node, msg, node)
            if not wp.problems:
                ctx.ok(f'{wp.func}: every excluded directory is removed from os.walk\'s own list `{wp.walk_dirs}` ({wp.rows} row(s)); the walk is top-down')
    ctx.note(f'os.walk loops whose exclusion rows were read: {nw}')


# =============================================================================================
# R8 install-data generation (backend/backends.py): per-item records are built from all the components of the item,
#    and the directory name appended for install_subdir is the basename of the recorded (sanitised) source path

BACK = 'mesonbuild/backend/backends.py'


def _record_classes(mod: Module) -> T.Dict[str, T.List[str]]:
    """Element classes of the InstallData collections (read from the annotations of InstallData.__init__), with subclasses,
    mapped to their constructor parameter names (dataclass fields in order, through one base class, or an explicit __init__)."""
    if not mod.has_cls('InstallData'):
        raise Undecided('backends.py: class InstallData not found')
    names: T.Set[str] = set()
    for n in ast.walk(mod.cls('InstallData')):
        if isinstance(n, ast.AnnAssign) and isinstance(n.annotation, ast.Subscript) and norm(n.annotation.value) in ('T.List', 'List', 'list'):
            nm = norm(n.annotation.slice).strip('\'"')
            if mod.has_cls(nm):
                names.add(nm)
    for cn, c in mod.classes().items():
        if any(norm(b) in names for b in c.bases):
            names.add(cn)

    def fields(cn: str, depth: int = 0) -> T.List[str]:
        c = mod.cls(cn)
        if mod.has_func(f'{cn}.__init__'):
            return U.params_of(mod.func(f'{cn}.__init__'))
        out: T.List[str] = []
        for b in c.bases:
            if mod.has_cls(norm(b)) and depth < 2:
                out += fields(norm(b), depth + 1)
        for st in c.body:
            if isinstance(st, ast.AnnAssign) and isinstance(st.target, ast.Name) and 'InitVar' not in norm(st.annotation) or \
                    isinstance(st, ast.AnnAssign) and isinstance(st.target, ast.Name):
                out.append(st.target.id)
        return out
    return {cn: fields(cn) for cn in sorted(names)}


R8_EXAMPLE = """
import os
class InstallData:
    def __init__(self):
        self.symlinks: T.List[InstallSymlinkData] = []
        self.install_subdirs: T.List[SubdirInstallData] = []
class InstallSymlinkData:
    target: str
    name: str
    tag: str
class SubdirInstallData:
    def __init__(self, path, install_path, exclude=None, tag=None):
        pass
class Backend:
    def gen_links(self, d, t, tag):
        for alias, to, alias_tag in t.get_aliases():
            d.symlinks.append(InstallSymlinkData(to, alias, tag))
    def gen_links_ok(self, d, t):
        for alias, to, tag in t.get_aliases():
            d.symlinks.append(InstallSymlinkData(to, alias, tag))
    def gen_subdirs(self, d):
        for sd in self.build.get_install_subdirs():
            src_dir = os.path.join(self.src, sd.installable_subdir).rstrip('/')
            dst_dir = os.path.join(self.prefix, sd.install_dir)
            if not sd.strip_directory:
                dst_dir = os.path.join(dst_dir, os.path.basename(sd.installable_subdir))
            d.install_subdirs.append(SubdirInstallData(src_dir, dst_dir))
"""


def _dropped_components(mod: Module, recs: T.Dict[str, T.List[str]]) -> T.Tuple[T.List[T.Tuple[str, ast.For, str, str]], int]:
    out: T.List[T.Tuple[str, ast.For, str, str]] = []
    nloops = 0
    for q, fn in mod.funcs().items():
        for lp in [n for n in walk_no_nested(fn) if isinstance(n, ast.For) and isinstance(n.target, ast.Tuple)]:
            ctors = [c for b in lp.body for c in ast.walk(b) if isinstance(c, ast.Call) and isinstance(c.func, ast.Name) and c.func.id in recs]
            if not ctors:
                continue
            if not all(isinstance(x, ast.Name) for x in lp.target.elts):     # type: ignore[attr-defined]
                continue
            nloops += 1
            used = {n.id for b in lp.body for n in ast.walk(b) if isinstance(n, ast.Name) and isinstance(n.ctx, ast.Load)}
            for x in lp.target.elts:      # type: ignore[attr-defined]
                if x.id not in used and not x.id.startswith('_'):
                    out.append((q, lp, x.id, ctors[0].func.id))     # type: ignore[attr-defined]
    return out, nloops


R8_CARRIED_EXAMPLE = """
import typing as T
class InstallDataBase:
    def __init__(self, path, install_path, tag=None):
        pass
class InstallData:
    def __init__(self):
        self.data: T.List[InstallDataBase] = []
class Backend:
    def gen_sticky(self, d):
        for de in self.items():
            tag = de.install_tag
            for f in de.sources:
                dst = join(de.dir, f)
                tag = tag or self.guess(dst)
                d.data.append(InstallDataBase(f, dst, tag=tag))
    def gen_clean(self, d):
        for de in self.items():
            mode = None
            explicit = de.install_tag
            for f in de.sources:
                dst = join(de.dir, f)
                if mode is None:
                    mode = de.mode
                tag = explicit
                if not tag:
                    tag = self.guess(dst)
                d.data.append(InstallDataBase(f, dst + mode, tag=tag))
"""


def _funcs_mentioning(mod: Module, tokens: T.Iterable[str]) -> T.Dict[str, U.FuncNode]:
    """Performance prefilter only (no decision hangs on it): the functions whose source lines mention one of the tokens."""
    toks = tuple(tokens)
    lines = [i + 1 for i, l in enumerate(mod.src.splitlines()) if any(t in l for t in toks)]
    if not lines or (isinstance(mod, U.NormModule) and len(mod.funcs()) <= 120):     # small modules are inlined by the normal form: lines move
        return dict(mod.funcs())
    return {q: fn for q, fn in mod.funcs().items() if any(fn.lineno <= ln <= (fn.end_lineno or fn.lineno) for ln in lines)}


class Carried(T.NamedTuple):
    func: str
    loop: ast.For
    ctor: str
    field: str
    name: str
    stmt: ast.AST


def _stored_names(node: ast.AST) -> T.Set[str]:
    return {n.id for n in ast.walk(node) if isinstance(n, ast.Name) and isinstance(n.ctx, (ast.Store, ast.Del))}


def _loaded_names(node: ast.AST) -> T.Set[str]:
    return {n.id for n in ast.walk(node) if isinstance(n, ast.Name) and isinstance(n.ctx, ast.Load)}


def _loop_carried_fields(mod: Module, recs: T.Dict[str, T.List[str]]) -> T.Tuple[T.List[Carried], int]:
    """Record fields whose value is carried over from an earlier iteration of the loop that builds the records: a local in the def-use
    closure of a constructor argument that is (re)defined inside the loop body from per-iteration data, and is read on some path
    from the loop head before the body has defined it (so iteration k sees what iteration k-1 computed)."""
    out: T.List[Carried] = []
    nsites = 0
    for q, fn in _funcs_mentioning(mod, [f'{r}(' for r in recs]).items():
        loops = [n for n in walk_no_nested(fn) if isinstance(n, ast.For)]
        if not loops:
            continue
        cfg: T.Optional[CFG] = None
        for lp in loops:
            # a local helper that survived normal form N15 is a scope of its own: its parameters are not the loop's variables
            scopes = [b for b in lp.body if isinstance(b, (ast.FunctionDef, ast.AsyncFunctionDef, ast.ClassDef))]
            own = [b for b in lp.body if b not in scopes]
            for sc in scopes:
                if any(isinstance(c, ast.Call) and isinstance(c.func, ast.Name) and c.func.id in recs for c in ast.walk(sc)):
                    raise Undecided(f'{q}: install records are built inside the local helper `{sc.name}` of a loop body, which could not be read at its calls')
            ctors = [c for b in own for c in walk_no_nested(b) if isinstance(c, ast.Call) and isinstance(c.func, ast.Name) and c.func.id in recs]
            if not ctors:
                continue
            body_stmts = [st for b in own for st in walk_no_nested(b) if isinstance(st, ast.stmt)] + [b for b in own]
            # definitions inside the body: name -> [(statement, names its new value is computed from)]
            defs: T.Dict[str, T.List[T.Tuple[ast.AST, T.Set[str]]]] = {}
            for st in body_stmts:
                if isinstance(st, ast.Assign):
                    for x in _stored_names(ast.Tuple(elts=st.targets, ctx=ast.Store())):
                        defs.setdefault(x, []).append((st, _loaded_names(st.value)))
                elif isinstance(st, ast.AnnAssign) and st.value is not None:
                    for x in _stored_names(st.target):
                        defs.setdefault(x, []).append((st, _loaded_names(st.value)))
                elif isinstance(st, ast.AugAssign):
                    for x in _stored_names(st.target):
                        defs.setdefault(x, []).append((st, _loaded_names(st.value) | {x}))
                elif isinstance(st, ast.For):
                    for x in _stored_names(st.target):
                        defs.setdefault(x, []).append((st, _loaded_names(st.iter)))
            fresh = _stored_names(lp.target) | {x for st in body_stmts if isinstance(st, ast.For) for x in _stored_names(st.target)}
            for c in ctors:
                nsites += 1
                params = recs[c.func.id]       # type: ignore[attr-defined]
                bound: T.List[T.Tuple[str, ast.AST]] = [(params[i] if i < len(params) else f'#{i}', a) for i, a in enumerate(c.args)] + \
                    [(k.arg or '**', k.value) for k in c.keywords]
                for field, arg in bound:
                    # def-use closure of the argument inside the body, remembering the statements whose reads belong to it
                    closure: T.Set[str] = set()
                    readers: T.List[T.Tuple[ast.AST, T.Set[str]]] = [(c, _loaded_names(arg))]
                    work = list(_loaded_names(arg))
                    while work:
                        x = work.pop()
                        if x in closure:
                            continue
                        closure.add(x)
                        for st, srcs in defs.get(x, []):
                            readers.append((st, srcs))
                            work += [y for y in srcs if y not in closure]
                    for x in sorted(closure & set(defs) - _stored_names(lp.target)):
                        # the in-body definitions of x depend on per-iteration data
                        dep: T.Set[str] = set()
                        work = [y for _, srcs in defs[x] for y in srcs]
                        while work:
                            y = work.pop()
                            if y in dep:
                                continue
                            dep.add(y)
                            work += [z for _, srcs in defs.get(y, []) for z in srcs]
                        if not dep & fresh:
                            continue
                        if cfg is None:
                            cfg = CFG(fn)
                        it = _iter_node(cfg, lp)
                        st_nodes = [n for st, _ in defs[x] for n in (cfg.stmt_nodes(st) if not isinstance(st, ast.For) else [_iter_node(cfg, st)])]
                        reach = cfg.reachable([it], [it] + st_nodes, edge_ok=lambda a, b, lab, _it=it: not (a is _it and lab == 'done'))
                        entered = set(reach)
                        for n in st_nodes:
                            if any(n.id in {b for b, _ in cfg.succ[a]} for a in list(reach) + [it.id]):
                                entered.add(n.id)
                        for rd, srcs in readers:
                            if x not in srcs:
                                continue
                            nodes = cfg.node_containing(rd) if isinstance(rd, ast.Call) else (cfg.stmt_nodes(rd) if not isinstance(rd, ast.For) else [_iter_node(cfg, rd)])
                            if any(n.id in entered for n in nodes) and not any(k.func == q and k.field == field and k.ctor == c.func.id for k in out):   # type: ignore[attr-defined]
                                out.append(Carried(q, lp, c.func.id, field, x, rd))     # type: ignore[attr-defined]
    return out, nsites


def _subdir_basename_sites(mod: Module, recs: T.Dict[str, T.List[str]]) -> T.List[T.Tuple[str, ast.Call, ast.AST, ast.AST, str]]:
    """(function, constructor call, basename operand, recorded source path, verdict 'ok'|'raw'|'unknown') for records with
    (path, install_path) whose install_path has a basename(...) component appended."""
    out = []
    for q, fn in mod.funcs().items():
        fl_raw = Flow(fn, nested=False)
        for c in calls_in(fn):
            if not (isinstance(c.func, ast.Name) and c.func.id in recs):
                continue
            ps = recs[c.func.id]
            if ps[:2] != ['path', 'install_path'] or 'exclude' not in ps:
                continue       # the directory-tree record (contents of `path` are copied into `install_path`)
            p_arg, q_arg = U.call_arg(c, 0, 'path'), U.call_arg(c, 1, 'install_path')
            if p_arg is None or q_arg is None or not isinstance(q_arg, ast.Name):
                continue
            # every expression that flows into the destination, through locals (three levels)
            exprs: T.List[ast.AST] = []
            frontier, seen_n = [q_arg.id], {q_arg.id}
            for _ in range(3):
                nxt_: T.List[str] = []
                for nm_ in frontier:
                    for dv in fl_raw.defs.get(nm_, []):
                        exprs.append(dv)
                        for y in ast.walk(dv):
                            if isinstance(y, ast.Name) and y.id not in seen_n and y.id in fl_raw.defs:
                                seen_n.add(y.id)
                                nxt_.append(y.id)
                frontier = nxt_
            for dv in exprs:
                for b in [x for x in ast.walk(dv) if isinstance(x, ast.Call) and U.dotted(mod, x.func) == 'os.path.basename' and len(x.args) == 1]:
                    e = b.args[0]
                    if norm(e) == norm(p_arg):
                        out.append((q, c, e, p_arg, 'ok'))
                        continue
                    def trimmed(x: ast.AST, depth: int = 0) -> bool:
                        if isinstance(x, ast.Call) and isinstance(x.func, ast.Attribute) and x.func.attr in ('rstrip', 'removesuffix'):
                            return True
                        if isinstance(x, ast.Call) and U.dotted(mod, x.func) in ('os.path.normpath', 'os.path.abspath', 'os.path.realpath'):
                            return True
                        if isinstance(x, ast.Name) and depth < 4:
                            ds = fl_raw.defs.get(x.id, [])
                            return bool(ds) and all(trimmed(d_, depth + 1) for d_ in ds)
                        return False

                    def raw_attrs(x: ast.AST, depth: int = 0) -> T.Set[str]:
                        acc: T.Set[str] = set()
                        for n_ in ast.walk(x):
                            ch_ = attr_chain(n_) if isinstance(n_, ast.Attribute) else None
                            if ch_ and ch_.split('.')[0] not in ('os', 'self'):
                                acc.add(ch_)
                            elif isinstance(n_, ast.Name) and depth < 4:
                                for d_ in fl_raw.defs.get(n_.id, []):
                                    if not isinstance(d_, ast.Call) or attr_chain(d_.func) is None or True:
                                        acc |= raw_attrs(d_, depth + 1) if d_ is not x else set()
                        return acc
                    if trimmed(e):
                        out.append((q, c, e, p_arg, 'ok'))
                    elif trimmed(p_arg) and raw_attrs(e) and raw_attrs(e) <= raw_attrs(p_arg):
                        out.append((q, c, e, p_arg, 'raw'))       # the same user string, but without the trimming the recorded path got
                    else:
                        out.append((q, c, e, p_arg, 'unknown'))
    return out


class StripSite(T.NamedTuple):
    func: str
    loop: ast.For
    attr: str
    effect: str
    missing: T.List[str]       # descriptions of the worlds in which the item attribute is set but the name is not stripped
    worlds: int


def _name_strips(mod: Module, recs: T.Dict[str, T.List[str]]) -> T.List[StripSite]:
    """In a loop that builds install records: a step `name = name.replace(<text with item.attr>, '')` (an attribute of the item is
    removed from the installed name, e.g. the locale of a man page) that is performed under tests of that attribute must be performed
    in *every* world that satisfies those tests - it must not additionally hinge on unrelated conditions of the path."""
    out: T.List[StripSite] = []
    for q, fn in mod.funcs().items():
        loops = [n for n in walk_no_nested(fn) if isinstance(n, ast.For)]
        for lp in loops:
            if any(isinstance(x, ast.For) for b in lp.body for x in ast.walk(b)):
                continue       # innermost loops only
            if not any(isinstance(c, ast.Call) and isinstance(c.func, ast.Name) and c.func.id in recs for b in lp.body for c in ast.walk(b)):
                continue
            if not any(isinstance(c, ast.Call) and isinstance(c.func, ast.Attribute) and c.func.attr == 'replace' for b in lp.body for c in ast.walk(b)):
                continue
            tab = tables.extract(fn, body=lp.body, effects=_assign_eff, inline=False, name=f'{q}:loop')
            per_attr: T.Dict[str, T.List[T.Tuple[tables.Row, str]]] = {}
            for r in tab.rows:
                for e in r.effects:
                    if ' := ' not in e or e.startswith('call '):
                        continue
                    try:
                        v = ast.parse(e.split(' := ', 1)[1], mode='eval').body
                    except SyntaxError:
                        continue
                    for c in ast.walk(v):
                        if isinstance(c, ast.Call) and isinstance(c.func, ast.Attribute) and c.func.attr == 'replace' and len(c.args) == 2 \
                                and isinstance(c.args[1], ast.Constant) and c.args[1].value == '':
                            attrs = {attr_chain(x) for x in ast.walk(c.args[0]) if isinstance(x, ast.Attribute) and attr_chain(x)}
                            for a_ in attrs:
                                per_attr.setdefault(a_, []).append((r, e))       # type: ignore[arg-type]
            for a_, hits in per_attr.items():
                guards = [at for at in tab.atoms() if a_ in repr(at)]
                if not guards:
                    continue       # the strip is unconditional
                sigs = {frozenset((at, v_) for at, v_ in r.conds.items() if at in guards) for r, _ in hits}
                sigs = {sg for sg in sigs if sg}
                if not sigs:
                    continue
                strip_rows = {id(r) for r, _ in hits}
                missing: T.List[str] = []
                nw = 0
                for w in tab.worlds():
                    if not any(all(w.get(at) == v_ for at, v_ in sg) for sg in sigs):
                        continue
                    nw += 1
                    for r in tab.fire(w):
                        if r.outcome[0] in ('raise', 'continue', 'break'):
                            continue
                        if id(r) not in strip_rows and not any(at in r.conds for at in guards):
                            # positive evidence only: a path that reaches the record without ever looking at the attribute other paths strip by
                            desc = ' & '.join(('' if v_ else 'not ') + repr(at) for at, v_ in r.conds.items())
                            if desc not in missing:
                                missing.append(desc)
                out.append(StripSite(q, lp, a_, hits[0][1], missing, nw))
    return out


R8C_EXAMPLE = """
import os
class InstallData:
    def __init__(self):
        self.man: T.List[InstallDataBase] = []
class InstallDataBase:
    path: str
    install_path: str
class Backend:
    def gen_good(self, d, man):
        for m in man:
            sub = m.custom_dir()
            if sub is None:
                sub = 'man'
            fname = m.fname
            if m.locale:
                fname = fname.replace(f'.{m.locale}', '')
            d.man.append(InstallDataBase(m.src, os.path.join(sub, fname)))
    def gen_bad(self, d, man):
        for m in man:
            sub = m.custom_dir()
            fname = m.fname
            if sub is None:
                sub = 'man'
                if m.locale:
                    fname = fname.replace(f'.{m.locale}', '')
            d.man.append(InstallDataBase(m.src, os.path.join(sub, fname)))
"""


# R8 (pairing) fields of a build record that the generator consumes position by position (`zip(de.sources, de.rename)`) are split together

R8_PAIR_EXAMPLE = """
import os
import typing as T
class Data:
    sources: T.List[str]
    install_dir: str
    rename: T.List[str] = None
class Backend:
    def gen(self, d):
        for de in self.build.get_data():
            assert isinstance(de, build.Data)
            for src, name in zip(de.sources, de.rename):
                d.data.append((src, os.path.join(de.install_dir, name)))
class Interp:
    def split_whole(self, sources, install_dir, rename):
        groups = {}
        for f in sources:
            groups.setdefault(os.path.dirname(f), []).append(f)
        for sub, files in groups.items():
            self.data.append(build.Data(files, os.path.join(install_dir, sub), rename))
    def split_both(self, sources, install_dir, rename):
        groups = {}
        names = {}
        for i, f in enumerate(sources):
            groups.setdefault(os.path.dirname(f), []).append(f)
            names.setdefault(os.path.dirname(f), []).append(rename[i])
        for sub, files in groups.items():
            self.data.append(build.Data(files, os.path.join(install_dir, sub), names[sub] if rename else None))
    def split_derived(self, sources, install_dir):
        groups = {}
        for f in sources:
            groups.setdefault(os.path.dirname(f), []).append(f)
        for sub, files in groups.items():
            self.data.append(build.Data(files, os.path.join(install_dir, sub)))
"""


def _annotated_fields(cls: ast.ClassDef) -> T.List[str]:
    return [st.target.id for st in cls.body if isinstance(st, ast.AnnAssign) and isinstance(st.target, ast.Name)]


def _zip_paired_fields(cons: Module, bmod: Module) -> T.Dict[str, T.List[T.Tuple[str, str]]]:
    """build record class -> pairs of its fields that the generator walks in lockstep (`zip(x.f, x.g)`: element i of g belongs to element i of f)."""
    classes = {cn: _annotated_fields(c) for cn, c in bmod.classes().items()}
    out: T.Dict[str, T.List[T.Tuple[str, str]]] = {}
    for q, fn in _funcs_mentioning(cons, ['zip(']).items():
        for c in calls_in(fn):
            if not (isinstance(c.func, ast.Name) and c.func.id == 'zip') or len(c.args) < 2 or c.keywords:
                continue
            if not all(isinstance(a, ast.Attribute) and isinstance(a.value, ast.Name) for a in c.args):
                continue
            if len({a.value.id for a in c.args}) != 1:     # type: ignore[attr-defined]
                continue
            base = c.args[0].value.id       # type: ignore[attr-defined]
            attrs = [a.attr for a in c.args]     # type: ignore[attr-defined]
            owners = [cn for cn, fs in classes.items() if all(a in fs for a in attrs)]
            asserted: T.Set[str] = set()
            for n in walk_no_nested(fn):
                if isinstance(n, ast.Call) and isinstance(n.func, ast.Name) and n.func.id == 'isinstance' and len(n.args) == 2 \
                        and isinstance(n.args[0], ast.Name) and n.args[0].id == base:
                    for t in (n.args[1].elts if isinstance(n.args[1], ast.Tuple) else [n.args[1]]):
                        asserted.add((attr_chain(t) or '').split('.')[-1])
            if asserted & set(owners):
                owners = sorted(asserted & set(owners))
            if not owners:
                continue       # not the fields of a build record
            if len(owners) > 1:
                raise Undecided(f'{q}: `{short(c)}`: the record class of `{base}` is not determined ({owners})')
            for g in attrs[1:]:
                if (attrs[0], g) not in out.setdefault(owners[0], []):
                    out[owners[0]].append((attrs[0], g))
    return out


class Unsplit(T.NamedTuple):
    func: str
    call: ast.Call
    cls: str
    whole: str
    split: str
    loop: ast.For


def _unsplit_pairs(mod: Module, bmod: Module, pairs: T.Dict[str, T.List[T.Tuple[str, str]]]) -> T.Tuple[T.List[Unsplit], int]:
    """Constructor calls of such a record inside a loop where one field of a lockstep pair is computed from the loop item (a per-iteration
    subset) while the other is a value that is the same in every iteration (the whole list): from the second record on the pairs no longer match."""
    out: T.List[Unsplit] = []
    nsites = 0

    def is_ctor(c: ast.AST) -> bool:
        return isinstance(c, ast.Call) and (attr_chain(c.func) or '').split('.')[-1] in pairs

    for q, fn in _funcs_mentioning(mod, [f'{cn}(' for cn in pairs]).items():
        for lp in [x for x in walk_no_nested(fn) if isinstance(x, ast.For)]:
            own = [b for b in lp.body if not isinstance(b, (ast.FunctionDef, ast.AsyncFunctionDef, ast.ClassDef))]
            ctors = [c for b in own for c in walk_no_nested(b) if is_ctor(c)]
            if not ctors:
                continue
            defs: T.Dict[str, T.Set[str]] = {}
            stored: T.Set[str] = set()
            for b in own:
                for st in walk_no_nested(b):
                    if isinstance(st, ast.Assign):
                        for x in _stored_names(ast.Tuple(elts=st.targets, ctx=ast.Store())):
                            defs.setdefault(x, set()).update(_loaded_names(st.value))
                    elif isinstance(st, (ast.AnnAssign, ast.AugAssign)) and st.value is not None:
                        for x in _stored_names(st.target):
                            defs.setdefault(x, set()).update(_loaded_names(st.value) | ({x} if isinstance(st, ast.AugAssign) else set()))
                    elif isinstance(st, ast.For):
                        for x in _stored_names(st.target):
                            defs.setdefault(x, set()).update(_loaded_names(st.iter))
                    if isinstance(st, ast.Name) and isinstance(st.ctx, (ast.Store, ast.Del)):
                        stored.add(st.id)
            item = _stored_names(lp.target)
            in_ctor_args = {id(n) for c in ctors for a in list(c.args) + [k.value for k in c.keywords] for n in ast.walk(a)}

            def variance(arg: ast.AST) -> str:
                closure: T.Set[str] = set()
                work = list(_loaded_names(arg) - _stored_names(arg))
                while work:
                    x = work.pop()
                    if x not in closure:
                        closure.add(x)
                        work += list(defs.get(x, ()))
                if closure & item:
                    return 'item'
                if closure & stored or not closure:
                    return 'unknown'
                for b in own:
                    for n in ast.walk(b):
                        if isinstance(n, ast.Name) and n.id in closure and id(n) not in in_ctor_args:
                            return 'unknown'       # the value is also handled elsewhere in the body (it might be consumed piecewise there)
                return 'whole'
            for c in ctors:
                cn = (attr_chain(c.func) or '').split('.')[-1]
                if any(isinstance(a, ast.Starred) for a in c.args) or any(k.arg is None for k in c.keywords):
                    raise Undecided(f'{q}: {cn}(...) is built from unpacked arguments')
                fields = _annotated_fields(bmod.cls(cn))
                bound: T.Dict[str, ast.AST] = {fields[i]: a for i, a in enumerate(c.args) if i < len(fields)}
                bound.update({k.arg: k.value for k in c.keywords if k.arg})
                for f, g in pairs[cn]:
                    nsites += 1
                    af, ag = bound.get(f), bound.get(g)
                    if af is None or ag is None or any(isinstance(a, ast.Constant) and a.value is None for a in (af, ag)):
                        continue       # the class derives the missing field from the other one, record by record
                    vf, vg = variance(af), variance(ag)
                    if 'unknown' in (vf, vg):
                        raise Undecided(f'{q}: {cn}(...) in a loop over `{short(lp.iter, 50)}`: whether `{short(af, 40)}` / `{short(ag, 40)}` are per-iteration values could not be read')
                    if vf != vg and not any(k.call is c for k in out):
                        out.append(Unsplit(q, c, cn, g if vg == 'whole' else f, f if vg == 'whole' else g, lp))
    return out, nsites


def _raise_guards(fn: U.FuncNode) -> T.List[T.List[ast.AST]]:
    """For every `raise` of the function (nested scopes excluded): the tests of the `if` statements it sits under."""
    out: T.List[T.List[ast.AST]] = []

    def visit(stmts: T.Sequence[ast.stmt], stack: T.List[ast.AST]) -> None:
        for st in stmts:
            if isinstance(st, ast.Raise):
                out.append(list(stack))
            elif isinstance(st, ast.If):
                visit(st.body, stack + [st.test])
                visit(st.orelse, stack + [st.test])
            elif isinstance(st, (ast.FunctionDef, ast.AsyncFunctionDef, ast.ClassDef)):
                continue
            else:
                for name in ('body', 'orelse', 'finalbody'):
                    visit(getattr(st, name, []) or [], stack)
                for h in getattr(st, 'handlers', []) or []:
                    visit(h.body, stack)
    visit(fn.body, [])
    return out


def _combination_rejected(mod: Module, bmod: Module, u: Unsplit) -> T.Optional[str]:
    """The whole-list argument of an unsplit record may still be harmless when the configuration is refused before the records are built: a
    `raise` under tests that mention the list together with a mode flag of the building function (a parameter it tests by truth value, such as
    the switch that selects the per-group split), in the function itself or in a same-class caller.  Returns a description, or None."""
    fn = mod.func(u.func)
    fields = _annotated_fields(bmod.cls(u.cls))
    bound: T.Dict[str, ast.AST] = {fields[i]: a for i, a in enumerate(u.call.args) if i < len(fields)}
    bound.update({k.arg: k.value for k in u.call.keywords if k.arg})
    whole = _loaded_names(bound[u.whole])
    params = [a.arg for a in fn.args.posonlyargs + fn.args.args + fn.args.kwonlyargs]
    flags: T.Set[str] = set()
    for n in walk_no_nested(fn):
        if isinstance(n, (ast.If, ast.While, ast.IfExp)):
            for leaf in _cond_leaves(n.test):
                if isinstance(leaf, ast.Name) and leaf.id in params and leaf.id not in whole:
                    flags.add(leaf.id)
    if not flags:
        return None
    for chain in _raise_guards(fn):
        names = {x for t in chain for x in _loaded_names(t)}
        if names & whole and names & flags:
            return f'{u.func} raises under `{" / ".join(short(t, 40) for t in chain)}`'
    wparams = [p_ for p_ in params if p_ in whole]
    cls_q, _, short_name = u.func.rpartition('.')
    for q, caller in mod.funcs().items():
        if q == u.func or (cls_q and not q.startswith(cls_q + '.')):
            continue
        for c in calls_in(caller):
            if not (isinstance(c.func, ast.Attribute) and c.func.attr == short_name and isinstance(c.func.value, ast.Name) and c.func.value.id in ('self', 'cls')):
                continue
            args = U.bind_args(c, fn)
            alias = U.single_def_aliases(caller)
            lists = {x for p_ in wparams if p_ in args for x in _loaded_names(args[p_])}
            flag_texts: T.Set[str] = set()
            for f_ in flags:
                if f_ in args:
                    flag_texts.add(norm(args[f_]))
                    if isinstance(args[f_], ast.Name) and args[f_].id in alias:       # type: ignore[attr-defined]
                        flag_texts.add(norm(alias[args[f_].id]))       # type: ignore[attr-defined]
            for chain in _raise_guards(caller):
                names = {x for t in chain for x in _loaded_names(t)}
                texts = {norm(x) for t in chain for x in ast.walk(t) if isinstance(x, ast.expr)}
                if names & lists and texts & flag_texts:
                    return f'{q} raises under `{" / ".join(short(t, 40) for t in chain)}` before calling {short_name}'
    return None


def r8(ctx: RuleCtx) -> None:
    exc = U.synthetic_module('example/backends_man.py', R8C_EXAMPLE)
    exs = {s_.func: bool(s_.missing) for s_ in _name_strips(exc, _record_classes(exc))}
    if exs != {'Backend.gen_good': False, 'Backend.gen_bad': True}:
        raise AnalysisError(f'C11.R8 built-in example (name strip) not recognised: {exs}')
    ctx.ok('built-in example: a locale strip that only happens for the default directory is flagged; an unconditional-on-directory strip is clean', nontrivial=False)
    exm = U.synthetic_module('example/backends.py', R8_EXAMPLE)
    erec = _record_classes(exm)
    dropped, _ = _dropped_components(exm, erec)
    sites = _subdir_basename_sites(exm, erec)
    if [(q, n) for q, _, n, _ in dropped] != [('Backend.gen_links', 'alias_tag')] or [v for *_, v in sites] != ['raw']:
        raise AnalysisError(f'C11.R8 built-in example not recognised: {dropped} {sites}')
    ctx.ok('built-in example: an unpacked alias tag that is never used, and basename() of the untrimmed subdir string, are flagged', nontrivial=False)
    mod = U.nmodule(ctx.repo, BACK)
    recs = _record_classes(mod)
    dropped, nloops = _dropped_components(mod, recs)
    for q, lp, name, ctor in dropped:
        ctx.violation(mod, q, f'for {norm(lp.target)} in {short(lp.iter, 50)}: {name} unused',
                      f'each item of `{short(lp.iter, 50)}` is unpacked into {norm(lp.target)}, but `{name}` is never read while the loop builds {ctor}(...) records: '
                      f'that component of the install rule is dropped (e.g. an alias symlink gets the tag of the primary output instead of its own, so --tags selects the wrong links)', lp)
    if not dropped:
        ctx.ok(f'{nloops} loops that unpack per-item tuples while building install records use every unpacked component')
    exk = U.synthetic_module('example/backends.py', R8_CARRIED_EXAMPLE)
    exc_, _ = _loop_carried_fields(exk, _record_classes(exk))
    if [(k.func, k.field) for k in exc_] != [('Backend.gen_sticky', 'tag')]:
        raise AnalysisError(f'C11.R8 built-in example (loop-carried field) not recognised: {exc_}')
    ctx.ok('built-in example: `tag = tag or guess(dst)` with tag initialised outside the per-file loop is flagged; per-file and loop-invariant definitions are clean', nontrivial=False)
    carried, nctor = _loop_carried_fields(mod, recs)
    for k in carried:
        ctx.violation(mod, k.func, f'{k.ctor}.{k.field} carried over from the previous iteration',
                      f'the `{k.field}` of the {k.ctor} record built for one item of `{short(k.loop.iter, 50)}` is computed from `{k.name}`, which the loop body itself redefines from '
                      f'per-item data and which `{short(k.stmt, 70)}` reads before this iteration has defined it: the value computed for an earlier item leaks into later records '
                      f'(e.g. the tag guessed for the first file of an install_data() call sticks to all later files, so --tags selects the wrong files)', k.stmt)
    if not carried:
        ctx.ok(f'{nctor} record constructor calls inside loops: no field depends on a value computed by an earlier iteration')
    ctx.floor('install record constructor calls inside loops', nctor, 1)
    sites = _subdir_basename_sites(mod, recs)
    for q, c, e, p_arg, v in sites:
        if v == 'unknown':
            raise Undecided(f'{q}: basename({short(e)}) appended to the destination of {norm(c.func)}: relation to the recorded source `{short(p_arg)}` not understood')
        ctx.require(v == 'ok', f'{q}: the directory name appended to the destination is the basename of the recorded (trimmed) source path', mod, q, f'os.path.basename({norm(e)})',
                    f'the destination of {norm(c.func)} gets os.path.basename({norm(e)}) appended, but the recorded source is `{norm(p_arg)}`, which is the same string with trailing '
                    f'separators trimmed: for install_subdir(\'docs/html/\') the basename is empty and the contents land directly in the install dir instead of <install_dir>/html', c)
    for st_ in _name_strips(mod, recs):
        ctx.require(not st_.missing, f'{st_.func}: `{short(st_.effect, 60)}` is performed in all {st_.worlds} worlds in which `{st_.attr}` is set',
                    mod, st_.func, f'{st_.effect} only on some paths with {st_.attr}',
                    f'the installed name has `{st_.attr}` removed (`{short(st_.effect, 70)}`) on some paths, but not when {st_.missing[0] if st_.missing else ""}: '
                    f'the strip hinges on a condition that has nothing to do with `{st_.attr}` (install_man(locale: \'fr\', install_dir: <custom>) installs tool.fr.1 instead of tool.1; '
                    f'docs: "foo.fr.1 with a locale of fr ... foo.1 becomes the installed file")', st_.loop)
    ctx.note(f'install record classes: {", ".join(recs)}')
    if not sites:
        ctx.note('no directory-tree record with a basename component found (nothing to compare)')
    # lockstep fields of build records (zip(de.sources, de.rename)) are split together where records are built per group
    exp = U.synthetic_module('example/interp_pairs.py', R8_PAIR_EXAMPLE)
    epairs = _zip_paired_fields(exp, exp)
    eun, en = _unsplit_pairs(exp, exp, epairs)
    if epairs != {'Data': [('sources', 'rename')]} or [(k.func, k.whole, k.split) for k in eun] != [('Interp.split_whole', 'rename', 'sources')] or en != 3:
        raise AnalysisError(f'C11.R8 built-in example (lockstep fields) not recognised: {epairs} {eun} {en}')
    ctx.ok('built-in example: the whole rename list handed to every per-directory record is flagged; a rename list split by the same key, and an omitted one, are clean', nontrivial=False)
    bmod = ctx.repo.module(BUILD)
    pairs = _zip_paired_fields(mod, bmod)
    if not pairs:
        raise Undecided('backends.py: no `zip(x.f, x.g)` over two fields of a build record found: how the generator pairs sources with names could not be read')
    rels = [INTERP] + (sorted(r for r in ctx.repo.py_files('mesonbuild/modules') if r != INTERP) if ctx.thorough else [])
    npair = 0
    unsplit: T.List[T.Tuple[Module, Unsplit]] = []
    for rel in rels:
        m2 = ctx.repo.module(rel)
        us, k_ = _unsplit_pairs(m2, bmod, pairs)
        npair += k_
        unsplit += [(m2, u) for u in us]
    refused = [(u, why) for m2, u in unsplit for why in [_combination_rejected(m2, bmod, u)] if why]
    unsplit = [(m2, u) for m2, u in unsplit if not any(u is r_ for r_, _ in refused)]
    for m2, u in unsplit:
        ctx.violation(m2, u.func, f'{u.cls}.{u.whole} handed over whole while {u.cls}.{u.split} is split per iteration',
                      f'the generator pairs {u.cls}.{u.split} with {u.cls}.{u.whole} position by position (zip), but the loop over `{short(u.loop.iter, 50)}` builds one {u.cls} per iteration '
                      f'with a per-iteration subset as `{u.split}` and the same, complete `{u.whole}` every time: every record starts again at the first entry, so the entries are assigned to the wrong files '
                      f"(install_data('a/one.txt', 'b/two.txt', 'top.txt', rename: ['R1', 'R2', 'R3'], preserve_path: true, install_dir: 'share/p') installs share/p/a/R1, share/p/b/R1 and share/p/R1 "
                      f'instead of a/R1, b/R2, R3)', u.call)
    if npair == 0:
        raise Undecided(f'no {"/".join(pairs)} record is constructed inside a loop statement: where per-directory records are built could not be read')
    if refused:
        u, why = refused[0]
        raise Undecided(f'{u.func}: {u.cls}.{u.whole} is handed over whole while {u.cls}.{u.split} is split per iteration, but {why}: whether the list can reach a split into several records could not be decided')
    if not unsplit:
        ctx.ok(f'{npair} lockstep field pairs ({"; ".join(f"{c}.{f}/{g}" for c, ps in pairs.items() for f, g in ps)}) at record constructors inside loops: both fields per-iteration, both whole, or one derived by the class')



# =============================================================================================
# R9 tri-state options (Optional[bool] parameters such as follow_symlinks): an explicit value is honoured

R9_EXAMPLE = """
import typing as T
class Installer:
    def good(self, a, b, follow_symlinks: T.Optional[bool] = None) -> None:
        if follow_symlinks is None:
            follow_symlinks = True
        self.copy2(a, b, follow_symlinks=follow_symlinks)
    def good_local(self, a, b, follow_symlinks: T.Optional[bool] = None) -> None:
        follow = True if follow_symlinks is None else follow_symlinks
        self.copy2(a, b, follow_symlinks=follow)
    def overridden(self, a, b, follow_symlinks: T.Optional[bool] = None) -> None:
        if not follow_symlinks:
            follow_symlinks = True
        self.copy2(a, b, follow_symlinks=follow_symlinks)
    def ignored(self, a, b, follow_symlinks: T.Optional[bool] = None) -> None:
        self.copy2(a, b)
    def not_forwarded(self, a, b, follow_symlinks: T.Optional[bool] = None) -> None:
        print(follow_symlinks)
        self.good(a, b)
"""


def _is_opt_bool(ann: T.Optional[ast.AST]) -> bool:
    """The annotation declares the three-element domain {None, False, True}."""
    if ann is None:
        return False
    if isinstance(ann, ast.Constant) and isinstance(ann.value, str):
        try:
            ann = ast.parse(ann.value, mode='eval').body
        except SyntaxError:
            return False
    if isinstance(ann, ast.Subscript):
        head = norm(ann.value).split('.')[-1]
        sl = ann.slice
        if head == 'Optional':
            return norm(sl) == 'bool'
        if head == 'Union' and isinstance(sl, ast.Tuple):
            return sorted(norm(e) for e in sl.elts) == ['None', 'bool']
    if isinstance(ann, ast.BinOp) and isinstance(ann.op, ast.BitOr):
        return sorted([norm(ann.left), norm(ann.right)]) == ['None', 'bool']
    return False


def _tristate_params(fn: U.FuncNode) -> T.List[str]:
    return [a.arg for a in fn.args.posonlyargs + fn.args.args + fn.args.kwonlyargs if _is_opt_bool(a.annotation)]


def _tri_facts(names: T.Iterable[str], v: T.Optional[bool]) -> T.Dict[str, bool]:
    """Truth values of the atoms over a name whose value is `v`, an element of the declared domain {None, False, True}."""
    f: T.Dict[str, bool] = {}
    for c in names:
        f[c] = bool(v)
        f[f'bool({c})'] = bool(v)
        f[f'isinstance({c}, bool)'] = v is not None
        for op, neg in (('is', 'is not'), ('==', '!=')):
            for k in (None, True, False):
                f[f'{c} {op} {k}'] = v is k
                f[f'{c} {neg} {k}'] = v is not k
                f[f'{k} {op} {c}'] = v is k
                f[f'{k} {neg} {c}'] = v is not k
    return f


def _cond_leaves(e: ast.AST) -> T.List[ast.AST]:
    if isinstance(e, ast.BoolOp):
        return [x for v in e.values for x in _cond_leaves(v)]
    if isinstance(e, ast.UnaryOp) and isinstance(e.op, ast.Not):
        return _cond_leaves(e.operand)
    if isinstance(e, ast.IfExp):
        return _cond_leaves(e.test) + _cond_leaves(e.body) + _cond_leaves(e.orelse)
    return [e]


def _tested_names(leaf: ast.AST) -> T.Set[str]:
    """Names whose value decides the atom: not those that are merely handed to a call evaluated inside it (`if self.copy(a, follow=p):` uses p,
    it does not test it); bool()/isinstance() of the name do test it."""
    out: T.Set[str] = set()
    stack: T.List[ast.AST] = [leaf]
    while stack:
        x = stack.pop()
        if isinstance(x, ast.Name):
            out.add(x.id)
        elif isinstance(x, ast.Call) and not (isinstance(x.func, ast.Name) and x.func.id in ('bool', 'isinstance')):
            stack.append(x.func)
        else:
            stack += list(ast.iter_child_nodes(x))
    return out


def _r9_method(ctx: Ctx, mod: Module, cls: str, methods: T.Dict[str, U.FuncNode], name: str) -> int:
    """Obligations of one method; returns the number of tri-state parameters read."""
    fn = methods[name]
    q = f'{cls}.{name}'
    done = 0
    for p in _tristate_params(fn):
        done += 1
        # carriers: the parameter and the locals that are assigned a carrier
        carriers = {p}
        grew = True
        while grew:
            grew = False
            for st in walk_no_nested(fn):
                if isinstance(st, ast.Assign) and len(st.targets) == 1 and isinstance(st.targets[0], ast.Name) and isinstance(st.value, ast.Name) \
                        and st.value.id in carriers and st.targets[0].id not in carriers:
                    carriers.add(st.targets[0].id)
                    grew = True
        cfg = CFG(fn)
        stores: T.Dict[str, T.List[T.Tuple[ast.stmt, T.Optional[ast.AST]]]] = {}
        for st in walk_no_nested(fn):
            if not isinstance(st, ast.stmt):
                continue
            tnames = [n for n in ast.walk(st) if isinstance(n, ast.Name) and isinstance(n.ctx, (ast.Store, ast.Del)) and n.id in carriers] \
                if not isinstance(st, (ast.If, ast.While, ast.For, ast.With, ast.Try, ast.FunctionDef, ast.AsyncFunctionDef, ast.ClassDef)) else []
            if isinstance(st, (ast.For, ast.With)):
                heads = [st.target] if isinstance(st, ast.For) else [i.optional_vars for i in st.items if i.optional_vars is not None]
                if any(isinstance(n, ast.Name) and n.id in carriers for h in heads for n in ast.walk(h)):
                    raise Undecided(f'{q}: `{p}` (or a local holding it) is rebound by a loop / with target')
            for tn in tnames:
                simple = isinstance(st, ast.Assign) and len(st.targets) == 1 and st.targets[0] is tn
                stores.setdefault(tn.id, []).append((st, st.value if simple else None))   # type: ignore[union-attr]
        if any(isinstance(n, ast.NamedExpr) and n.target.id in carriers for n in walk_no_nested(fn)):
            raise Undecided(f'{q}: `{p}` is rebound by an assignment expression')

        def is_carrier_value(e: T.Optional[ast.AST]) -> bool:
            return isinstance(e, ast.Name) and e.id in carriers
        # names whose value is the declared value of p whenever they are read: p itself, and locals that take another value only after
        # having been given a carrier
        trusted = {p}
        for c in carriers - {p}:
            cs = [n for st, e in stores.get(c, []) if is_carrier_value(e) for n in cfg.stmt_nodes(st)]
            if all(is_carrier_value(e) or all(cfg.dominated_by_any(n, cs) for n in cfg.stmt_nodes(st)) for st, e in stores.get(c, [])):
                trusted.add(c)
        loads = [n for n in walk_no_nested(fn) if isinstance(n, ast.Name) and isinstance(n.ctx, ast.Load) and n.id in carriers]
        arg_loads = [n for c in calls_in(fn) for a in list(c.args) + [k.value for k in c.keywords]
                     for n in ast.walk(a) if isinstance(n, ast.Name) and isinstance(n.ctx, ast.Load) and n.id in carriers]
        if not loads:
            ctx.violation(mod, q, f'tri-state parameter {p} is never read',
                          f'{q} accepts `{p}` (declared Optional[bool]: None = legacy default, True/False = the value given in the build definition) but never reads it: '
                          f'an install rule with an explicit {p} is installed as if it had none', fn)
            continue
        if not arg_loads:
            raise Undecided(f'{q}: `{p}` is only tested, never handed on as an argument: the copy calls of the arms would have to be compared')
        bad = False
        for v in (True, False):
            facts = _tri_facts(trusted, v)
            alias = {k: e for k, e in U.single_def_aliases(fn).items() if k not in carriers}
            reach = U.feasible_reach(cfg, [cfg.entry], facts, alias, include_start=True)
            for n in cfg.nodes:
                if n.kind == 'test' and n.id in reach:
                    for leaf in _cond_leaves(n.ast.test):    # type: ignore[union-attr]
                        if _tested_names(leaf) & carriers and U.tv(leaf, facts, alias) is None:
                            raise Undecided(f'{q}: `{p}` is tested through `{short(leaf)}`, which the domain {{None, False, True}} of the parameter does not decide')
            for c in sorted(carriers):
                for st, e in stores.get(c, []):
                    if is_carrier_value(e) or (isinstance(e, ast.Constant) and e.value is v):
                        continue
                    nodes = cfg.stmt_nodes(st)
                    if not nodes:
                        raise Undecided(f'{q}: the rebinding of `{c}` is not on the CFG')
                    if not any(n.id in reach for n in nodes):
                        continue
                    others = [n for st2, _ in stores.get(c, []) if st2 is not st for n in cfg.stmt_nodes(st2)]
                    after = U.feasible_reach(cfg, nodes, facts, alias, avoid=others)
                    used = [l for l in loads if l.id == c and any(n.id in after for n in cfg.node_containing(l))]
                    if not used:
                        continue
                    if c not in trusted:
                        raise Undecided(f'{q}: local `{c}` holds `{p}` on some paths and `{short(e) if e is not None else "another value"}` on others before it is used')
                    bad = True
                    val = short(e) if e is not None else 'another value'
                    ctx.violation(mod, q, f'explicit {p}={v} replaced by {val} before use',
                                  f'with an explicit {p}={v} the rebinding `{short(st)}` is reached (its guard is not limited to `{p} is None`) and the new value is then used: '
                                  f'the value declared in the build definition is overridden (e.g. install_data(..., {p}: {str(v).lower()}) behaves like {val})', st)
        if not bad:
            ctx.ok(f'{q}: with an explicit `{p}` (True or False) no rebinding of it is reached before a use; carriers {sorted(carriers)}')
    # forwarding: a call of a sibling method that has a tri-state parameter of the same name passes the caller's value on
    mine = set(_tristate_params(fn))
    for c in calls_in(fn):
        callee = _self_method(c)
        if callee is None or callee not in methods or callee == name:
            continue
        for p2 in _tristate_params(methods[callee]):
            if p2 not in mine:
                continue
            if any(k.arg is None for k in c.keywords) or any(isinstance(a, ast.Starred) for a in c.args):
                raise Undecided(f'{q}: `{short(c)}` forwards its arguments wholesale')
            a_ = U.bind_args(c, methods[callee]).get(p2)
            ctx.require(a_ is not None, f'{q}: `{p2}` is handed on to self.{callee}', mod, q, f'self.{callee}(...) without {p2}',
                        f'{q} has the tri-state parameter `{p2}` but calls self.{callee} without it: the callee falls back to the legacy default and the declared value is lost', c)
    return done


def r9(ctx: RuleCtx) -> None:
    ex = Rec()
    exm = U.synthetic_module('example/minstall.py', R9_EXAMPLE)
    exmeth = exm.methods('Installer')
    for nm in exmeth:
        _r9_method(ex, exm, 'Installer', exmeth, nm)
    if sorted(f for f, _, _ in ex.v) != ['Installer.ignored', 'Installer.not_forwarded', 'Installer.overridden'] or len(ex.oks) != 3:
        raise AnalysisError(f'C11.R9 built-in example not recognised: {ex.v} {ex.oks}')
    ctx.ok('built-in example: `if not follow_symlinks:` override, an ignored and a not-forwarded tri-state parameter are flagged; `is None` default and the local-copy form are clean', nontrivial=False)
    m = _model(ctx)
    n = 0
    for name in m.inst:
        n += _r9_method(ctx, m.mod, 'Installer', m.inst, name)
    ctx.floor('tri-state (Optional[bool]) parameters of Installer methods', n, 1)



# =============================================================================================
# R5c the declared mode of a directory-only install rule (install_emptydir) keeps its sticky bit

INTERP = 'mesonbuild/interpreter/interpreter.py'
BUILD = 'mesonbuild/build.py'

R10_EXAMPLE = """
import stat
class Interpreter:
    def _files_only(self, mode):
        if mode.perms & stat.S_ISVTX:
            return FileMode(stat.filemode(mode.perms - stat.S_ISVTX)[1:], mode.owner, mode.group)
        return mode
    def func_good(self, node, args, kwargs):
        return build.EmptyDir(args[0], kwargs['install_mode'], self.subproject)
    def func_bad(self, node, args, kwargs):
        m = self._files_only(kwargs['install_mode'])
        return build.EmptyDir(args[0], m, self.subproject)
"""


def _sticky_strippers(mod: Module) -> T.Dict[str, U.FuncNode]:
    """Functions that compute a value with S_ISVTX removed (`x - S_ISVTX`, `x & ~S_ISVTX`, `x -= / &= ~ / ^=`), by short name."""
    def is_sticky(e: ast.AST) -> bool:
        return (attr_chain(e) or '').split('.')[-1] == 'S_ISVTX'
    out: T.Dict[str, U.FuncNode] = {}
    for q, fn in _funcs_mentioning(mod, ['S_ISVTX']).items():
        for n in walk_no_nested(fn):
            op, right = (n.op, n.right) if isinstance(n, ast.BinOp) else ((n.op, n.value) if isinstance(n, ast.AugAssign) else (None, None))
            if op is None:
                continue
            if (isinstance(op, (ast.Sub, ast.BitXor)) and is_sticky(right)) or \
                    (isinstance(op, ast.BitAnd) and isinstance(right, ast.UnaryOp) and isinstance(right.op, ast.Invert) and is_sticky(right.operand)) or \
                    (isinstance(n, ast.BinOp) and isinstance(op, ast.BitAnd) and isinstance(n.left, ast.UnaryOp) and isinstance(n.left.op, ast.Invert) and is_sticky(n.left.operand)):
                out[q.split('.')[-1]] = fn
    return out


def _r10_core(ctx: Ctx, mod: Module, mode_index: int, mode_field: str, ctor: str) -> int:
    strippers = _sticky_strippers(mod)
    n = 0
    for q, fn in _funcs_mentioning(mod, [ctor]).items():
        for c in calls_in(fn):
            if (attr_chain(c.func) or '').split('.')[-1] != ctor:
                continue
            if any(isinstance(a, ast.Starred) for a in c.args) or any(k.arg is None for k in c.keywords):
                raise Undecided(f'{q}: {ctor}(...) is built from unpacked arguments')
            arg = kwarg(c, mode_field) or (c.args[mode_index] if len(c.args) > mode_index else None)
            if arg is None:
                raise Undecided(f'{q}: {ctor}(...) without a `{mode_field}` argument')
            n += 1
            org = Flow(fn, nested=False).origins(arg)
            through = sorted(o.split(':', 1)[1].split('.')[-1] for o in org if o.startswith('call:') and o.split(':', 1)[1].split('.')[-1] in strippers)
            for nm in through:
                if len(U.params_of(strippers[nm])) != 1:
                    raise Undecided(f'{q}: the mode of {ctor} passes through `{nm}`, which removes S_ISVTX under parameters the rule does not read')
            ctx.require(not through, f'{q}: the `{mode_field}` of {ctor}(...) does not pass through a function that removes S_ISVTX (strippers: {sorted(strippers) or "none"})',
                        mod, q, f'{ctor}.{mode_field} through {", ".join(through)}',
                        f'the mode handed to {ctor} (a directory-only install rule) is first passed through `{", ".join(through)}`, which removes the sticky bit (meaningless for files only): '
                        f"install_emptydir('spool', install_mode: 'rwxrwxrwt') creates the directory without S_ISVTX instead of with the declared mode", c)
    return n


def r10(ctx: RuleCtx) -> None:
    ex = Rec()
    _r10_core(ex, U.synthetic_module('example/interpreter.py', R10_EXAMPLE), 1, 'install_mode', 'EmptyDir')
    if [f for f, _, _ in ex.v] != ['Interpreter.func_bad'] or len(ex.oks) != 1:
        raise AnalysisError(f'C11.R5c built-in example not recognised: {ex.v} {ex.oks}')
    ctx.ok('built-in example: an EmptyDir mode routed through the files-only sticky-bit stripper is flagged; the direct kwarg is clean', nontrivial=False)
    bmod = ctx.repo.module(BUILD)
    fields = [st.target.id for st in bmod.cls('EmptyDir').body if isinstance(st, ast.AnnAssign) and isinstance(st.target, ast.Name)]
    modes = [f for f in fields if 'mode' in f]
    if len(modes) != 1:
        raise Undecided(f'build.EmptyDir: fields {fields}: exactly one mode field expected')
    n = _r10_core(ctx, ctx.repo.module(INTERP), fields.index(modes[0]), modes[0], 'EmptyDir')
    ctx.floor('build.EmptyDir constructor calls in the interpreter', n, 1)


RULES = [
    Rule('C11.R1', 'mutating calls only in dry-run wrappers', r1),
    Rule('C11.R2', 'destinations rooted under DESTDIR', r2),
    Rule('C11.R3a', 'should_install guards every effect of the eight per-kind loops; filter table', r3a),
    Rule('C11.R3b', 'install_subdirs first; permission calls last in an iteration', r3b),
    Rule('C11.R3c', 'every copied file reaches set_mode', r3c),
    Rule('C11.R4a', 'creations are logged; DirMaker records and emits deepest-first', r4a),
    Rule('C11.R4b', 'uninstall reader is the inverse of the log writer', r4b),
    Rule('C11.R5', 'set_mode / sanitize_permissions / umask tables', r5),
    Rule('C11.R5b', 'install_mode string -> mode bits table (ls -l notation)', r5b),
    Rule('C11.R6', 'pre-existing entry at a symlink destination is removed under a no-follow probe', r6),
    Rule('C11.R7', 'no restructuring of a collection while iterating it; os.walk pruning in place', r7),
    Rule('C11.R8', 'install-data generation: no dropped item component; subdir name from the recorded source path', r8),
    Rule('C11.R9', 'an explicit tri-state option (follow_symlinks) is not overridden, ignored or dropped on the way to the copier', r9),
    Rule('C11.R5c', 'the mode of install_emptydir (a directory) is not passed through the files-only sticky-bit stripper', r10),
]
