"""C20 helper: decision functions evaluated on finite *model worlds*.

The engine's `tables`/`paths` enumerate syntactic paths first and prune later, which explodes on
the nested loops of `cargo_parse` / `SemVer.__init__` (a path per unrolling).  This helper decides the
same question - "which outcome does the function body produce in world w" - directly: it walks the
*AST of the anchored function* (read from source text, never imported) with an environment whose
collaborators are **models built by the rule** (a SemVer stand-in that records `next_ver(k)`, comparison
oracles with preset answers, a token stream, IR stand-ins built from the dataclass field lists).
Values are plain Python ints/strs/lists/dicts created by the checker; the only operations applied to them
are whitelisted built-in ones (`str.startswith`, list `append`, `len`, ...).  Every construct outside the
small subset below raises `Undecided` - never a verdict.

Subset: assignments (names, tuples, subscripts, attributes of model objects), if/for/while/break/continue,
return/raise/assert, try/except/finally, nested def/lambda (closures), generators (collected eagerly),
comprehensions, the usual expression forms.
"""
from __future__ import annotations

import ast
import typing as T

from ..core import Undecided, short, walk_no_nested


# ---------------------------------------------------------------- model values
class Obj:
    """A model instance: class name, base names, attribute dict, python-callable methods."""

    def __init__(self, cls: str, bases: T.Sequence[str] = (), attrs: T.Optional[T.Dict[str, T.Any]] = None,
                 methods: T.Optional[T.Dict[str, T.Callable[..., T.Any]]] = None, strict: bool = False):
        self.cls = cls
        self.bases = tuple(bases)
        self.attrs = dict(attrs or {})
        self.methods = dict(methods or {})
        self.strict = strict    # strict: a missing attribute means the *model* is incomplete -> Undecided

    def __repr__(self) -> str:
        return f'{self.cls}({", ".join(f"{k}={v!r}" for k, v in self.attrs.items())})'


class ClassRef:
    """A model class: usable in isinstance() and callable as constructor."""

    def __init__(self, name: str, bases: T.Sequence[str] = (), ctor: T.Optional[T.Callable[..., T.Any]] = None):
        self.name = name
        self.bases = tuple(bases)
        self.ctor = ctor

    def __call__(self, *args: T.Any, **kw: T.Any) -> T.Any:
        if self.ctor is None:
            raise Undecided(f'model class {self.name} is not constructible')
        return self.ctor(*args, **kw)

    def __repr__(self) -> str:
        return f'<class {self.name}>'


class ExcClass(ClassRef):
    def __init__(self, name: str, bases: T.Sequence[str] = ('Exception',)):
        super().__init__(name, bases, lambda *a, **k: ExcVal(name, self.bases, a))


class ExcVal:
    def __init__(self, cls: str, bases: T.Sequence[str] = ('Exception',), args: T.Sequence[T.Any] = ()):
        self.cls = cls
        self.bases = tuple(bases)
        self.args = tuple(args)

    def __repr__(self) -> str:
        return f'{self.cls}({", ".join(repr(a) for a in self.args)})'


class Namespace:
    """Attribute bag (module stand-in, enum class stand-in)."""

    def __init__(self, name: str, **attrs: T.Any):
        self._name = name
        self._attrs = attrs

    def __repr__(self) -> str:
        return f'<ns {self._name}>'


class EnumVal:
    def __init__(self, cls: str, name: str):
        self.cls = cls
        self.name = name

    def __repr__(self) -> str:
        return f'{self.cls}.{self.name}'


class Raised(Exception):
    """An exception of the *interpreted* program."""

    def __init__(self, exc: ExcVal):
        super().__init__(repr(exc))
        self.exc = exc


BUILTIN_EXC_BASES = {
    'StopIteration': ('Exception',), 'IndexError': ('LookupError', 'Exception'), 'KeyError': ('LookupError', 'Exception'),
    'ValueError': ('Exception',), 'TypeError': ('Exception',), 'AttributeError': ('Exception',), 'AssertionError': ('Exception',),
    'ZeroDivisionError': ('ArithmeticError', 'Exception'), 'Exception': (), 'LookupError': ('Exception',),
}


def py_exc(e: BaseException) -> Raised:
    n = e.__class__.__name__
    if n not in BUILTIN_EXC_BASES:
        raise Undecided(f'evaluator: unexpected host exception {n}: {e}')
    return Raised(ExcVal(n, BUILTIN_EXC_BASES[n], e.args))


class _Ret(Exception):
    def __init__(self, v: T.Any):
        self.v = v


class _Brk(Exception):
    pass


class _Cont(Exception):
    pass


class Env:
    def __init__(self, vars: T.Optional[T.Dict[str, T.Any]] = None, parent: T.Optional['Env'] = None):
        self.vars = dict(vars or {})
        self.parent = parent

    def get(self, name: str) -> T.Any:
        e: T.Optional[Env] = self
        while e is not None:
            if name in e.vars:
                return e.vars[name]
            e = e.parent
        raise KeyError(name)

    def set(self, name: str, v: T.Any) -> None:
        self.vars[name] = v


class Closure:
    def __init__(self, interp: 'Interp', node: T.Union[ast.FunctionDef, ast.Lambda], env: Env):
        self.interp = interp
        self.node = node
        self.env = env
        self.is_gen = (not isinstance(node, ast.Lambda)) and any(
            isinstance(n, (ast.Yield, ast.YieldFrom)) for st in node.body for n in walk_no_nested(st))

    def __call__(self, *args: T.Any, **kw: T.Any) -> T.Any:
        return self.interp.call_closure(self, list(args), kw)

    def __repr__(self) -> str:
        return f'<closure {getattr(self.node, "name", "lambda")}>'


STR_METHODS = {'startswith', 'endswith', 'strip', 'lstrip', 'rstrip', 'split', 'isdigit', 'isspace', 'isalpha', 'isalnum', 'lower', 'upper', 'join',
               'partition', 'rpartition', 'replace', 'find', 'removeprefix', 'removesuffix', 'isnumeric', 'isdecimal', 'count'}
LIST_METHODS = {'append', 'extend', 'pop', 'copy', 'insert', 'index', 'count'}
DICT_METHODS = {'get', 'keys', 'values', 'items', 'copy'}
SET_METHODS = {'add', 'copy'}
TUPLE_METHODS = {'index', 'count'}


def _b_isinstance(x: T.Any, c: T.Any) -> bool:
    cs = c if isinstance(c, tuple) else (c,)
    for k in cs:
        if isinstance(k, ClassRef):
            if isinstance(x, Obj) and (x.cls == k.name or k.name in x.bases):
                return True
            if isinstance(x, ExcVal) and (x.cls == k.name or k.name in x.bases):
                return True
        elif isinstance(k, type):
            if isinstance(x, (Obj, ExcVal, EnumVal, ClassRef, Namespace, Closure)):
                continue
            if isinstance(x, k):
                return True
        else:
            raise Undecided(f'evaluator: isinstance against {k!r}')
    return False


_NODEFAULT = object()


def _b_next(it: T.Any, default: T.Any = _NODEFAULT) -> T.Any:
    if not hasattr(it, '__next__'):
        raise Undecided(f'evaluator: next() on {it!r}')
    try:
        return next(it)
    except StopIteration:
        if default is _NODEFAULT:
            raise
        return default


BUILTINS: T.Dict[str, T.Any] = {
    'len': len, 'min': min, 'max': max, 'int': int, 'str': str, 'bool': bool, 'list': list, 'tuple': tuple, 'set': set, 'dict': dict,
    'range': range, 'enumerate': lambda *a: list(enumerate(*a)), 'zip': lambda *a: list(zip(*a)), 'any': any, 'all': all,
    'isinstance': _b_isinstance, 'next': _b_next, 'sorted': sorted, 'reversed': lambda x: list(reversed(x)), 'abs': abs, 'iter': iter,
    'True': True, 'False': False, 'None': None, 'NotImplemented': NotImplemented,
}
for _n, _b in BUILTIN_EXC_BASES.items():
    BUILTINS[_n] = ExcClass(_n, _b)


class Interp:
    def __init__(self, globals_: T.Dict[str, T.Any], max_steps: int = 20000, name: str = ''):
        self.globals = Env({**BUILTINS, **globals_})
        self.steps = 0
        self.max_steps = max_steps
        self.name = name
        self.trace: T.List[ast.stmt] = []

    # -------------------------------------------------------------- functions
    def closure(self, fn: T.Union[ast.FunctionDef, ast.Lambda], env: T.Optional[Env] = None) -> Closure:
        return Closure(self, fn, env or self.globals)

    def call_closure(self, c: Closure, args: T.List[T.Any], kw: T.Dict[str, T.Any]) -> T.Any:
        a = c.node.args
        if a.vararg or a.kwarg or a.posonlyargs:
            raise Undecided(f'evaluator: signature of {c!r}')
        params = [p.arg for p in a.args]
        env = Env({}, c.env)
        defaults = list(a.defaults)
        first_default = len(params) - len(defaults)
        for i, p in enumerate(params):
            if i < len(args):
                env.set(p, args[i])
            elif p in kw:
                env.set(p, kw.pop(p))
            elif i >= first_default:
                env.set(p, self.ev(defaults[i - first_default], c.env))
            else:
                raise py_exc(TypeError(f'missing argument {p}'))
        if len(args) > len(params):
            raise py_exc(TypeError('too many arguments'))
        for p, d in zip(a.kwonlyargs, a.kw_defaults):
            if p.arg in kw:
                env.set(p.arg, kw.pop(p.arg))
            elif d is not None:
                env.set(p.arg, self.ev(d, c.env))
        if kw:
            raise py_exc(TypeError(f'unexpected keyword {sorted(kw)}'))
        if isinstance(c.node, ast.Lambda):
            return self.ev(c.node.body, env)
        if c.is_gen:
            env.set('%yields', [])
            try:
                self.block(c.node.body, env)
            except _Ret:
                pass
            return list(env.vars['%yields'])
        try:
            self.block(c.node.body, env)
        except _Ret as r:
            return r.v
        return None

    # -------------------------------------------------------------- statements
    def tick(self, node: ast.AST) -> None:
        self.steps += 1
        if self.steps > self.max_steps:
            raise Undecided(f'evaluator: step budget exhausted in {self.name} at {short(node)}')

    def block(self, body: T.List[ast.stmt], env: Env) -> None:
        for st in body:
            self.stmt(st, env)

    def stmt(self, st: ast.stmt, env: Env) -> None:
        self.tick(st)
        if isinstance(st, ast.If):
            self.block(st.body if self.truth(self.ev(st.test, env)) else st.orelse, env)
            return
        if isinstance(st, ast.For):
            it = self.iterate(self.ev(st.iter, env), st.iter)
            broke = False
            for item in it:
                self.tick(st)
                self.assign(st.target, item, env)
                try:
                    self.block(st.body, env)
                except _Brk:
                    broke = True
                    break
                except _Cont:
                    continue
            if not broke:
                self.block(st.orelse, env)
            return
        if isinstance(st, ast.While):
            broke = False
            while self.truth(self.ev(st.test, env)):
                self.tick(st)
                try:
                    self.block(st.body, env)
                except _Brk:
                    broke = True
                    break
                except _Cont:
                    continue
            if not broke:
                self.block(st.orelse, env)
            return
        if isinstance(st, ast.Try):
            try:
                try:
                    self.block(st.body, env)
                except Raised as r:
                    for h in st.handlers:
                        if self.handler_matches(h, r.exc, env):
                            if h.name:
                                env.set(h.name, r.exc)
                            self.block(h.body, env)
                            break
                    else:
                        raise
                else:
                    self.block(st.orelse, env)
            finally:
                if st.finalbody:
                    self.block(st.finalbody, env)
            return
        self.trace.append(st)
        if isinstance(st, ast.Assign):
            v = self.ev(st.value, env)
            for t in st.targets:
                self.assign(t, v, env)
        elif isinstance(st, ast.AnnAssign):
            if st.value is not None:
                self.assign(st.target, self.ev(st.value, env), env)
        elif isinstance(st, ast.AugAssign):
            cur = self.ev(_as_load(st.target), env)
            self.assign(st.target, self.binop(st.op, cur, self.ev(st.value, env), st), env)
        elif isinstance(st, ast.Expr):
            self.ev(st.value, env)
        elif isinstance(st, ast.Return):
            raise _Ret(self.ev(st.value, env) if st.value is not None else None)
        elif isinstance(st, ast.Raise):
            if st.exc is None:
                raise Undecided('evaluator: bare raise')
            x = self.ev(st.exc, env)
            if isinstance(x, ClassRef):
                x = x()
            if not isinstance(x, ExcVal):
                raise Undecided(f'evaluator: raise of {x!r}')
            raise Raised(x)
        elif isinstance(st, ast.Assert):
            if not self.truth(self.ev(st.test, env)):
                raise Raised(ExcVal('AssertionError', BUILTIN_EXC_BASES['AssertionError'], (short(st.test),)))
        elif isinstance(st, ast.Break):
            raise _Brk()
        elif isinstance(st, ast.Continue):
            raise _Cont()
        elif isinstance(st, ast.Pass):
            pass
        elif isinstance(st, ast.FunctionDef):
            env.set(st.name, Closure(self, st, env))
        else:
            raise Undecided(f'evaluator: statement {st.__class__.__name__}: {short(st)}')

    def handler_matches(self, h: ast.ExceptHandler, exc: ExcVal, env: Env) -> bool:
        if h.type is None:
            return True
        t = self.ev(h.type, env)
        for k in (t if isinstance(t, tuple) else (t,)):
            if not isinstance(k, ClassRef):
                raise Undecided(f'evaluator: except {short(h.type)}')
            if k.name == exc.cls or k.name in exc.bases or k.name == 'BaseException':
                return True
        return False

    def iterate(self, v: T.Any, node: ast.AST) -> T.List[T.Any]:
        if isinstance(v, (list, tuple, range, str, dict, set, frozenset)):
            return list(v)
        raise Undecided(f'evaluator: iteration over {v!r} ({short(node)})')

    def assign(self, t: ast.AST, v: T.Any, env: Env) -> None:
        if isinstance(t, ast.Name):
            env.set(t.id, v)
        elif isinstance(t, (ast.Tuple, ast.List)):
            try:
                vals = list(v)
            except TypeError as e:
                raise py_exc(e)
            if any(isinstance(x, ast.Starred) for x in t.elts):
                raise Undecided('evaluator: starred assignment')
            if len(vals) != len(t.elts):
                raise py_exc(ValueError('unpack'))
            for a, b in zip(t.elts, vals):
                self.assign(a, b, env)
        elif isinstance(t, ast.Subscript):
            base = self.ev(t.value, env)
            if not isinstance(base, (list, dict)):
                raise Undecided(f'evaluator: item assignment on {base!r}')
            idx = self.index(t.slice, env)
            try:
                base[idx] = v
            except (IndexError, KeyError, TypeError) as e:
                raise py_exc(e)
        elif isinstance(t, ast.Attribute):
            base = self.ev(t.value, env)
            if not isinstance(base, Obj):
                raise Undecided(f'evaluator: attribute assignment on {base!r}')
            base.attrs[t.attr] = v
        else:
            raise Undecided(f'evaluator: assignment target {short(t)}')

    # -------------------------------------------------------------- expressions
    def truth(self, v: T.Any) -> bool:
        if isinstance(v, (Obj, ExcVal, EnumVal, ClassRef, Namespace, Closure)):
            return True
        return bool(v)

    def index(self, s: ast.AST, env: Env) -> T.Any:
        if isinstance(s, ast.Slice):
            return slice(self.ev(s.lower, env) if s.lower else None, self.ev(s.upper, env) if s.upper else None,
                         self.ev(s.step, env) if s.step else None)
        return self.ev(s, env)

    def ev(self, e: ast.AST, env: Env) -> T.Any:
        self.tick(e)
        m = getattr(self, 'e_' + e.__class__.__name__, None)
        if m is None:
            raise Undecided(f'evaluator: expression {e.__class__.__name__}: {short(e)}')
        return m(e, env)

    def e_Constant(self, e: ast.Constant, env: Env) -> T.Any:
        return e.value

    def e_Name(self, e: ast.Name, env: Env) -> T.Any:
        try:
            return env.get(e.id)
        except KeyError:
            raise Undecided(f'evaluator: name {e.id} has no model in {self.name}')

    def e_Tuple(self, e: ast.Tuple, env: Env) -> T.Any:
        return tuple(self.elts(e.elts, env))

    def e_List(self, e: ast.List, env: Env) -> T.Any:
        return list(self.elts(e.elts, env))

    def e_Set(self, e: ast.Set, env: Env) -> T.Any:
        return set(self.elts(e.elts, env))

    def elts(self, xs: T.List[ast.expr], env: Env) -> T.List[T.Any]:
        out: T.List[T.Any] = []
        for x in xs:
            if isinstance(x, ast.Starred):
                out.extend(self.iterate(self.ev(x.value, env), x))
            else:
                out.append(self.ev(x, env))
        return out

    def e_Dict(self, e: ast.Dict, env: Env) -> T.Any:
        out: T.Dict[T.Any, T.Any] = {}
        for k, v in zip(e.keys, e.values):
            if k is None:
                out.update(self.ev(v, env))
            else:
                out[self.ev(k, env)] = self.ev(v, env)
        return out

    def e_JoinedStr(self, e: ast.JoinedStr, env: Env) -> T.Any:
        parts = []
        for v in e.values:
            if isinstance(v, ast.Constant):
                parts.append(str(v.value))
            elif isinstance(v, ast.FormattedValue):
                x = self.ev(v.value, env)
                parts.append(repr(x) if v.conversion == ord('r') else str(x))
            else:
                raise Undecided('evaluator: f-string part')
        return ''.join(parts)

    def e_BoolOp(self, e: ast.BoolOp, env: Env) -> T.Any:
        is_and = isinstance(e.op, ast.And)
        v: T.Any = None
        for x in e.values:
            v = self.ev(x, env)
            if self.truth(v) != is_and:
                return v
        return v

    def e_UnaryOp(self, e: ast.UnaryOp, env: Env) -> T.Any:
        v = self.ev(e.operand, env)
        if isinstance(e.op, ast.Not):
            return not self.truth(v)
        if isinstance(e.op, ast.USub) and isinstance(v, int):
            return -v
        raise Undecided(f'evaluator: unary {short(e)}')

    def binop(self, op: ast.operator, a: T.Any, b: T.Any, node: ast.AST) -> T.Any:
        ok = (int, str, list, tuple)
        if not (isinstance(a, ok) and isinstance(b, ok)):
            raise Undecided(f'evaluator: operands of {short(node)}: {a!r}, {b!r}')
        try:
            if isinstance(op, ast.Add):
                return a + b    # type: ignore[operator]
            if isinstance(op, ast.Sub):
                return a - b    # type: ignore[operator]
            if isinstance(op, ast.Mult):
                return a * b    # type: ignore[operator]
            if isinstance(op, ast.FloorDiv):
                return a // b   # type: ignore[operator]
            if isinstance(op, ast.Mod) and isinstance(a, int):
                return a % b    # type: ignore[operator]
        except (TypeError, ZeroDivisionError) as ex:
            raise py_exc(ex)
        raise Undecided(f'evaluator: operator in {short(node)}')

    def e_BinOp(self, e: ast.BinOp, env: Env) -> T.Any:
        return self.binop(e.op, self.ev(e.left, env), self.ev(e.right, env), e)

    def e_IfExp(self, e: ast.IfExp, env: Env) -> T.Any:
        return self.ev(e.body if self.truth(self.ev(e.test, env)) else e.orelse, env)

    def e_Compare(self, e: ast.Compare, env: Env) -> T.Any:
        left = self.ev(e.left, env)
        for op, rhs in zip(e.ops, e.comparators):
            right = self.ev(rhs, env)
            r = self.compare(op, left, right, e)
            if not r:
                return False
            left = right
        return True

    def compare(self, op: ast.cmpop, a: T.Any, b: T.Any, node: ast.AST) -> bool:
        if isinstance(op, ast.Is):
            return a is b
        if isinstance(op, ast.IsNot):
            return a is not b
        opaque = (Obj, ExcVal, EnumVal, ClassRef, Namespace, Closure)
        if isinstance(op, (ast.Eq, ast.NotEq)):
            if isinstance(a, opaque) or isinstance(b, opaque):
                eq = a is b
            else:
                eq = a == b
            return eq if isinstance(op, ast.Eq) else not eq
        if isinstance(op, (ast.In, ast.NotIn)):
            if not isinstance(b, (list, tuple, set, frozenset, dict, str)):
                raise Undecided(f'evaluator: membership in {b!r}')
            try:
                r = any(x is a for x in b) if isinstance(a, opaque) else a in b
            except TypeError as ex:
                raise py_exc(ex)
            return r if isinstance(op, ast.In) else not r
        if isinstance(a, opaque) or isinstance(b, opaque):
            raise Undecided(f'evaluator: ordering of model values in {short(node)}')
        try:
            if isinstance(op, ast.Lt):
                return a < b
            if isinstance(op, ast.LtE):
                return a <= b
            if isinstance(op, ast.Gt):
                return a > b
            if isinstance(op, ast.GtE):
                return a >= b
        except TypeError as ex:
            raise py_exc(ex)
        raise Undecided(f'evaluator: comparison {short(node)}')

    def e_Subscript(self, e: ast.Subscript, env: Env) -> T.Any:
        base = self.ev(e.value, env)
        if not isinstance(base, (list, tuple, str, dict)):
            raise Undecided(f'evaluator: subscript of {base!r} in {short(e)}')
        idx = self.index(e.slice, env)
        try:
            return base[idx]
        except (IndexError, KeyError, TypeError) as ex:
            raise py_exc(ex)

    def e_Attribute(self, e: ast.Attribute, env: Env) -> T.Any:
        base = self.ev(e.value, env)
        a = e.attr
        if isinstance(base, Obj):
            if a in base.attrs:
                return base.attrs[a]
            if a in base.methods:
                return base.methods[a]
            if base.strict:
                raise Undecided(f'evaluator: the model of {base.cls} has no attribute {a} ({short(e)})')
            raise py_exc(AttributeError(f'{base.cls}.{a}'))
        if isinstance(base, Namespace):
            if a in base._attrs:
                return base._attrs[a]
            raise Undecided(f'evaluator: {base!r} has no member {a}')
        if isinstance(base, ExcVal) and a == 'args':
            return base.args
        table = {str: STR_METHODS, list: LIST_METHODS, dict: DICT_METHODS, set: SET_METHODS, tuple: TUPLE_METHODS}
        for ty, names in table.items():
            if type(base) is ty:
                if a in names:
                    return getattr(base, a)
                raise Undecided(f'evaluator: {ty.__name__}.{a} is not whitelisted ({short(e)})')
        raise Undecided(f'evaluator: attribute {a} of {base!r}')

    def e_Call(self, e: ast.Call, env: Env) -> T.Any:
        f = self.ev(e.func, env)
        args = self.elts(e.args, env)
        kw: T.Dict[str, T.Any] = {}
        for k in e.keywords:
            if k.arg is None:
                raise Undecided('evaluator: **kwargs call')
            kw[k.arg] = self.ev(k.value, env)
        if not callable(f):
            raise py_exc(TypeError(f'{f!r} is not callable'))
        if isinstance(f, Closure):
            return f(*args, **kw)
        try:
            r = f(*args, **kw)
        except (Raised, Undecided, _Ret, _Brk, _Cont):
            raise
        except (StopIteration, IndexError, KeyError, ValueError, TypeError, AttributeError) as ex:
            raise py_exc(ex)
        if hasattr(r, '__next__') and not isinstance(r, _Stream):
            r = list(r)
        elif isinstance(r, (type({}.keys()), type({}.values()), type({}.items()))):
            r = list(r)
        return r

    def e_Lambda(self, e: ast.Lambda, env: Env) -> T.Any:
        return Closure(self, e, env)

    def e_Yield(self, e: ast.Yield, env: Env) -> T.Any:
        try:
            ys = env.get('%yields')
        except KeyError:
            raise Undecided('evaluator: yield outside a generator closure')
        ys.append(self.ev(e.value, env) if e.value is not None else None)
        return None

    def comp(self, gens: T.List[ast.comprehension], env: Env, emit: T.Callable[[Env], None]) -> None:
        def rec(i: int, env: Env) -> None:
            if i == len(gens):
                emit(env)
                return
            g = gens[i]
            if g.is_async:
                raise Undecided('evaluator: async comprehension')
            for item in self.iterate(self.ev(g.iter, env), g.iter):
                e2 = Env({}, env)
                self.assign(g.target, item, e2)
                if all(self.truth(self.ev(c, e2)) for c in g.ifs):
                    rec(i + 1, e2)
        rec(0, env)

    def e_ListComp(self, e: ast.ListComp, env: Env) -> T.Any:
        out: T.List[T.Any] = []
        self.comp(e.generators, env, lambda en: out.append(self.ev(e.elt, en)))
        return out

    def e_GeneratorExp(self, e: ast.GeneratorExp, env: Env) -> T.Any:
        return self.e_ListComp(T.cast(ast.ListComp, e), env)

    def e_SetComp(self, e: ast.SetComp, env: Env) -> T.Any:
        return set(self.e_ListComp(T.cast(ast.ListComp, e), env))

    def e_DictComp(self, e: ast.DictComp, env: Env) -> T.Any:
        out: T.Dict[T.Any, T.Any] = {}

        def emit(en: Env) -> None:
            out[self.ev(e.key, en)] = self.ev(e.value, en)
        self.comp(e.generators, env, emit)
        return out


class _Stream:
    """A model iterator that the evaluator must not materialise (token stream)."""

    def __init__(self, items: T.Sequence[T.Any]):
        self.items = list(items)
        self.pos = 0

    def __iter__(self) -> '_Stream':
        return self

    def __next__(self) -> T.Any:
        if self.pos >= len(self.items):
            raise StopIteration
        self.pos += 1
        return self.items[self.pos - 1]

    def exhausted(self) -> bool:
        return self.pos >= len(self.items)


Stream = _Stream


def _as_load(t: ast.AST) -> ast.AST:
    import copy
    t2 = copy.deepcopy(t)
    for n in ast.walk(t2):
        if hasattr(n, 'ctx'):
            n.ctx = ast.Load()   # type: ignore[attr-defined]
    return t2


def last_call_stmt(trace: T.List[ast.stmt], method: str) -> T.Optional[ast.stmt]:
    """The last executed simple statement that calls `.method(...)` (to name the construct of a finding)."""
    for st in reversed(trace):
        for n in walk_no_nested(st):
            if isinstance(n, ast.Call) and isinstance(n.func, ast.Attribute) and n.func.attr == method:
                return st
    return None


def dataclass_model(cls: ast.ClassDef, bases: T.Sequence[str]) -> ClassRef:
    """Model of a repository dataclass: positional/keyword constructor over the annotated fields."""
    fields = [st.target.id for st in cls.body if isinstance(st, ast.AnnAssign) and isinstance(st.target, ast.Name)]
    name = cls.name

    def ctor(*args: T.Any, **kw: T.Any) -> Obj:
        if len(args) > len(fields):
            raise py_exc(TypeError(f'{name}() takes {len(fields)} arguments'))
        attrs = dict(zip(fields, args))
        for k, v in kw.items():
            if k not in fields or k in attrs:
                raise py_exc(TypeError(f'{name}() argument {k}'))
            attrs[k] = v
        if set(attrs) != set(fields):
            raise py_exc(TypeError(f'{name}() missing arguments'))
        return Obj(name, bases, attrs)
    ref = ClassRef(name, bases, ctor)
    ref.fields = fields   # type: ignore[attr-defined]
    return ref
