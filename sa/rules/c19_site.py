"""C19.R5 — call-site roles of the range algebra in the meson_version narrowing of `if` clauses
(mesonbuild/interpreterbase/interpreterbase.py: InterpreterBase.evaluate_if and private helpers it calls).

Kinds: K8 call-site agreement (which operand is the receiver of the asymmetric `Range.always(inner)`),
K3 must-flow (what is stored as the narrowed range), K1 must-pass-through (the saved range is stored back on
every way out).  Roles are assigned by *origin* (def-use, flow-insensitive inside a function, one level of
parameter binding through the callers inside the module):

  P  the range the project allows so far       : a read of `project_meson_versions[...]`
  C  the range of the condition just evaluated : a read of `self.tmp_meson_version`
  N  the narrowed range                        : `<P>.intersect(<C>)` or `<C>.intersect(<P>)` (intersection is symmetric)

Nothing is evaluated; an operand whose origin cannot be named makes the rule Undecided.
"""
from __future__ import annotations

import ast
import copy
import typing as T

from ..core import Module, Undecided, attr_chain, norm, short, walk_no_nested
from ..cfg import CFG
from ..report import RuleCtx

IBASE = 'mesonbuild/interpreterbase/interpreterbase.py'
UNIVERSAL = 'mesonbuild/utils/universal.py'
TABLE = 'project_meson_versions'
COND = 'tmp_meson_version'
FuncNode = T.Union[ast.FunctionDef, ast.AsyncFunctionDef]


def _is_table_item(e: ast.AST) -> bool:
    return isinstance(e, ast.Subscript) and (attr_chain(e.value) or '').split('.')[-1] == TABLE


def _one_arg(c: ast.Call, name: str) -> T.Optional[ast.AST]:
    """The single operand of a one-parameter method call, passed by position or by keyword."""
    if len(c.args) == 1 and not c.keywords and not isinstance(c.args[0], ast.Starred):
        return c.args[0]
    if not c.args and len(c.keywords) == 1 and c.keywords[0].arg == name:
        return c.keywords[0].value
    return None


class Roles:
    def __init__(self, mod: Module):
        self.mod = mod
        self.funcs: T.Dict[str, FuncNode] = dict(mod.funcs())
        self._defs: T.Dict[int, T.Dict[str, T.List[T.Optional[ast.AST]]]] = {}
        # method name of Range -> (parameter, [element expression over self/parameter | None]) for methods that return a tuple display
        # on every path (see pair_summaries); filled by r5
        self.pairs: T.Dict[str, T.Tuple[str, T.List[T.Optional[ast.AST]]]] = {}
        self.constant_slots: T.Dict[str, T.Set[int]] = {}        # method -> elements that are a literal constant on every return

    def defs(self, fn: FuncNode) -> T.Dict[str, T.List[T.Optional[ast.AST]]]:
        """local name -> the expressions bound to it anywhere in fn (None: bound in a way the rule does not read)."""
        if id(fn) in self._defs:
            return self._defs[id(fn)]
        out: T.Dict[str, T.List[T.Optional[ast.AST]]] = {}
        simple: T.Set[int] = set()
        for n in walk_no_nested(fn, include_root=False):
            if isinstance(n, ast.Assign) and len(n.targets) == 1 and isinstance(n.targets[0], ast.Name):
                out.setdefault(n.targets[0].id, []).append(n.value)
                simple.add(id(n.targets[0]))
            elif isinstance(n, ast.AnnAssign) and isinstance(n.target, ast.Name):
                simple.add(id(n.target))
                if n.value is not None:
                    out.setdefault(n.target.id, []).append(n.value)
            elif isinstance(n, ast.Assign) and len(n.targets) == 1 and isinstance(n.targets[0], ast.Tuple) and isinstance(n.value, ast.Call) \
                    and all(isinstance(t, ast.Name) for t in n.targets[0].elts):
                # `a, b = recv.m(x)`: a is `recv.m(x)[0]`, b is `recv.m(x)[1]` (read through the pair summary of m, round 13)
                for i, t in enumerate(n.targets[0].elts):
                    out.setdefault(t.id, []).append(ast.Subscript(value=n.value, slice=ast.Constant(value=i), ctx=ast.Load()))     # type: ignore[attr-defined]
                    simple.add(id(t))
        for n in walk_no_nested(fn, include_root=False):
            if isinstance(n, ast.Name) and isinstance(n.ctx, (ast.Store, ast.Del)) and id(n) not in simple:
                out.setdefault(n.id, []).append(None)
        self._defs[id(fn)] = out
        return out

    def callers(self, fn: FuncNode) -> T.List[T.Tuple[FuncNode, ast.Call]]:
        out = []
        for g in self.funcs.values():
            if g is fn:
                continue
            for c in walk_no_nested(g, include_root=False):
                if isinstance(c, ast.Call) and ((isinstance(c.func, ast.Attribute) and c.func.attr == fn.name and attr_chain(c.func.value) in ('self', 'cls'))
                                                or (isinstance(c.func, ast.Name) and c.func.id == fn.name)):
                    out.append((g, c))
        return out

    def role(self, fn: FuncNode, e: ast.AST, depth: int = 0, busy: T.Optional[T.Set[T.Tuple[int, str]]] = None) -> T.Set[str]:
        busy = busy or set()
        if depth > 4:
            return {'?depth'}
        if _is_table_item(e):
            return {'P'}
        ch = attr_chain(e)
        if ch is not None and '.' in ch:
            return {'C'} if ch.split('.')[-1] == COND and ch.split('.')[0] == 'self' else {f'?{ch}'}
        if isinstance(e, ast.Call) and isinstance(e.func, ast.Attribute) and e.func.attr == 'intersect' and _one_arg(e, 'x') is not None:
            a, b = self.role(fn, e.func.value, depth, busy), self.role(fn, _one_arg(e, 'x'), depth, busy)     # type: ignore[arg-type]
            if (a, b) in (({'P'}, {'C'}), ({'C'}, {'P'})):
                return {'N'}
            if any(x.startswith('?') for x in a | b):
                return {f'?{short(e, 60)}'}
            return {f'intersect({"|".join(sorted(a))}, {"|".join(sorted(b))})'}
        if isinstance(e, ast.Subscript) and isinstance(e.slice, ast.Constant) and type(e.slice.value) is int and isinstance(e.value, ast.Call) \
                and isinstance(e.value.func, ast.Attribute) and e.value.func.attr in self.pairs:
            # element of the pair returned by a Range method: the element expression with self/parameter replaced by receiver/argument
            param, elts = self.pairs[e.value.func.attr]
            operand = _one_arg(e.value, param)
            if operand is not None and 0 <= e.slice.value < len(elts) and elts[e.slice.value] is None and e.slice.value in self.constant_slots.get(e.value.func.attr, ()):
                return {f'element {e.slice.value} of the pair returned by Range.{e.value.func.attr} (a constant answer, not a range)'}
            if operand is not None and 0 <= e.slice.value < len(elts) and elts[e.slice.value] is not None:
                recv = e.value.func.value

                class Bind(ast.NodeTransformer):
                    def visit_Name(self, n: ast.Name) -> ast.AST:
                        return copy.deepcopy(recv) if n.id == 'self' else copy.deepcopy(operand) if n.id == param else n
                return self.role(fn, Bind().visit(copy.deepcopy(elts[e.slice.value])), depth + 1, busy)
            return {f'?{short(e, 60)}'}
        if isinstance(e, ast.Name):
            key = (id(fn), e.id)
            if key in busy:
                return set()
            busy = busy | {key}
            ds = self.defs(fn).get(e.id)
            params = [a.arg for a in fn.args.posonlyargs + fn.args.args + fn.args.kwonlyargs]
            out: T.Set[str] = set()
            if ds:
                for d in ds:
                    out |= {f'?{e.id}'} if d is None else self.role(fn, d, depth, busy)
            if e.id in params:
                cs = self.callers(fn)
                if not cs and not ds:
                    return {f'?parameter {e.id} of {fn.name} (no caller in the module)'}
                pos = [a.arg for a in fn.args.posonlyargs + fn.args.args]
                for g, c in cs:
                    actual: T.Optional[ast.AST] = None
                    args = list(c.args)
                    names = pos[1:] if pos and pos[0] in ('self', 'cls') and isinstance(c.func, ast.Attribute) else pos
                    if e.id in names and names.index(e.id) < len(args) and not any(isinstance(a, ast.Starred) for a in args):
                        actual = args[names.index(e.id)]
                    for k in c.keywords:
                        if k.arg == e.id:
                            actual = k.value
                    out |= {f'?argument {e.id} of {short(c, 50)}'} if actual is None else self.role(g, actual, depth + 1, busy)
            if not out:
                return {f'?{e.id}'}
            return out
        return {f'?{short(e, 60)}'}


CONSTANT_SLOTS: T.Dict[str, T.Set[int]] = {}     # filled by pair_summaries (per run)


def pair_summaries(umod: Module) -> T.Tuple[T.Dict[str, T.Tuple[str, T.List[T.Optional[ast.AST]]]], T.Dict[str, int]]:
    """Closed-world reading of the Range class for call sites in other modules (round 13: a query merged with its sibling into one
    method that returns both answers).  Returns
      pairs  : public one-parameter method m of Range -> (parameter, elements), when every return of m (normal form, intersect kept
               as a pure call) is a tuple display of one length; an element is its expression when that is the same on every return
               and mentions only self and the parameter, else None (not a fixed expression: e.g. the verdict);
      verdict: m -> k when Range.always itself is defined as the projection `return self.m(inner)[k]`: then `r.m(x)` asks always().
    Nothing here is evaluated: expressions are compared as normalised text."""
    from .c19_norm import normal_form
    pairs: T.Dict[str, T.Tuple[str, T.List[T.Optional[ast.AST]]]] = {}
    verdict: T.Dict[str, int] = {}
    CONSTANT_SLOTS.clear()
    try:
        rng = umod.cls('Range')
    except Exception:       # noqa: BLE001  (anchors of the class are R4's business)
        return pairs, verdict
    if any(isinstance(c, ast.ClassDef) and any('Range' in {n.id for n in ast.walk(b) if isinstance(n, ast.Name)} for b in c.bases) for c in ast.walk(umod.tree)):
        return pairs, verdict
    for m in rng.body:
        if not isinstance(m, ast.FunctionDef) or m.name.startswith('_') or m.decorator_list:
            continue
        a = m.args
        params = [p.arg for p in a.posonlyargs + a.args]
        if len(params) != 2 or params[0] != 'self' or a.vararg or a.kwarg or a.kwonlyargs:
            continue
        if m.name == 'always':
            body = [st for st in m.body if not (isinstance(st, ast.Expr) and isinstance(st.value, ast.Constant))]
            if len(body) == 1 and isinstance(body[0], ast.Return) and isinstance(body[0].value, ast.Subscript):
                sub = body[0].value
                c = sub.value
                if isinstance(sub.slice, ast.Constant) and type(sub.slice.value) is int and isinstance(c, ast.Call) and isinstance(c.func, ast.Attribute) \
                        and norm(c.func.value) == 'self' and (op := _one_arg(c, '')) is not None and norm(op) == params[1]:
                    verdict[c.func.attr] = sub.slice.value
            continue
        if m.name == 'intersect':
            continue
        try:
            nf = normal_form(m, umod.tree, cls='Range', calls={'intersect'})
        except Undecided:
            continue
        rets = [n for n in walk_no_nested(nf, include_root=False) if isinstance(n, ast.Return)]
        if not rets or not all(isinstance(r.value, ast.Tuple) and len(r.value.elts) == len(rets[0].value.elts)     # type: ignore[union-attr]
                               and not any(isinstance(x, ast.Starred) for x in r.value.elts) for r in rets):
            continue
        elts: T.List[T.Optional[ast.AST]] = []
        for i in range(len(rets[0].value.elts)):           # type: ignore[union-attr]
            texts = {norm(r.value.elts[i]) for r in rets}  # type: ignore[union-attr]
            e0 = rets[0].value.elts[i]                     # type: ignore[union-attr]
            names = {n.id for n in ast.walk(e0) if isinstance(n, ast.Name)}
            elts.append(e0 if len(texts) == 1 and names <= {'self', params[1]} and not isinstance(e0, ast.Constant) else None)
            if all(isinstance(r.value.elts[i], ast.Constant) for r in rets):      # type: ignore[union-attr]
                CONSTANT_SLOTS.setdefault(m.name, set()).add(i)
        pairs[m.name] = (params[1], elts)
    verdict = {m: k for m, k in verdict.items() if m in pairs and 0 <= k < len(pairs[m][1])}
    return pairs, verdict


def _fmt(r: T.Set[str]) -> str:
    names = {'P': 'the project range (project_meson_versions[..])', 'C': 'the condition range (self.tmp_meson_version)', 'N': 'the narrowed range'}
    return ' | '.join(names.get(x, x) for x in sorted(r))


def _unknown(*rs: T.Set[str]) -> T.List[str]:
    return [x for r in rs for x in r if x.startswith('?')]


def _request_raisers(ctx: RuleCtx, mod: Module, roles: Roles) -> T.Dict[str, str]:
    """Functions of the module that can be left through a control-flow request: they raise an exception class the source derives
    directly from BaseException (closed world: the classes the module can name), or call such a method on `self` (closure).
    qualified name -> how (for the message).  Handlers further down the call chain are not subtracted (no request class is
    caught by every one of them: subdir_done leaves any block)."""
    cached = getattr(roles, '_raisers', None)
    if cached is not None:
        return cached
    out: T.Dict[str, str] = {}
    for q, fn in roles.funcs.items():
        for n in walk_no_nested(fn, include_root=False):
            if isinstance(n, ast.Raise) and n.exc is not None:
                e = n.exc.func if isinstance(n.exc, ast.Call) else n.exc
                if isinstance(e, ast.Name):
                    rc = ctx.repo.resolve_class(mod, e.id)
                    if rc is not None and [norm(b) for b in rc[1].bases] == ['BaseException']:
                        out.setdefault(q, f'{q} raises {e.id}')
    changed = True
    while changed:
        changed = False
        for q, fn in roles.funcs.items():
            if q in out:
                continue
            owner = q.rsplit('.', 1)[0] if '.' in q else ''
            for c in walk_no_nested(fn, include_root=False):
                if isinstance(c, ast.Call) and isinstance(c.func, ast.Attribute) and attr_chain(c.func.value) == 'self':
                    callee = f'{owner}.{c.func.attr}' if owner else c.func.attr
                    if callee in out:
                        out[q] = f'{q} -> {out[callee]}'
                        changed = True
                        break
    roles._raisers = out          # type: ignore[attr-defined]
    return out


def r5(ctx: RuleCtx) -> None:
    mod = ctx.repo.module(IBASE)
    roles = Roles(mod)
    # built-in positive example of the role reader (must match on every run)
    probe = ast.parse('def f(self):\n    p = m.project_meson_versions[self.subproject]\n    c = self.tmp_meson_version\n    return p.intersect(c)\n').body[0]
    assert roles.role(probe, probe.body[-1].value) == {'N'}, 'role reader self-test'     # type: ignore[attr-defined]
    roles.pairs, verdict = pair_summaries(ctx.repo.module(UNIVERSAL))
    roles.constant_slots = {k: set(v) for k, v in CONSTANT_SLOTS.items()}

    # (a) Range.always is asymmetric: receiver = what the project allows, argument = the condition
    n_always = 0
    for q, fn in roles.funcs.items():
        for c in walk_no_nested(fn, include_root=False):
            if not (isinstance(c, ast.Call) and isinstance(c.func, ast.Attribute) and (c.func.attr == 'always' or c.func.attr in verdict)):
                continue
            # `r.m(x)` where Range.always is by definition `self.m(inner)[k]` asks the same asymmetric question (round 13)
            operand = _one_arg(c, 'inner' if c.func.attr == 'always' else roles.pairs[c.func.attr][0])
            if operand is None:
                raise Undecided(f'{q}: cannot bind the argument of {short(c)}')
            recv, arg = roles.role(fn, c.func.value), roles.role(fn, operand)
            if _unknown(recv, arg):
                raise Undecided(f'{q}: cannot name the origin of the operands of {short(c)}: {_unknown(recv, arg)}')
            n_always += 1
            ctx.require(recv == {'P'} and arg == {'C'}, f'{q}: always() is asked of the project range about the condition range', mod, q, c,
                        f'`{norm(c)}`: the receiver is {_fmt(recv)} and the argument is {_fmt(arg)}; Range.always(inner) answers "does every/no version of '
                        f'*self* satisfy inner", so the receiver must be the project range and the argument the condition range '
                        f'(swapped, a strictly narrower condition is reported as "always true")', c)
    ctx.floor('calls of Range.always in the if-clause narrowing', n_always, 1)

    # (b) what is stored into project_meson_versions[...]: the narrowed range, or the saved range (restore)
    narrow: T.List[T.Tuple[str, FuncNode, ast.Assign]] = []
    restore: T.Dict[int, T.List[ast.Assign]] = {}
    saves: T.Dict[int, T.List[ast.stmt]] = {}
    for q, fn in roles.funcs.items():
        for st in walk_no_nested(fn, include_root=False):
            if isinstance(st, (ast.Assign, ast.AnnAssign)) and getattr(st, 'value', None) is not None:
                tg = st.targets if isinstance(st, ast.Assign) else [st.target]
                if len(tg) == 1 and isinstance(tg[0], ast.Name) and _is_table_item(st.value):
                    saves.setdefault(id(fn), []).append(st)
            if isinstance(st, ast.AugAssign) and _is_table_item(st.target):
                raise Undecided(f'{q}: in-place update {short(st)}')
            if not (isinstance(st, ast.Assign) and any(_is_table_item(t) for t in st.targets)):
                continue
            if len(st.targets) != 1:
                raise Undecided(f'{q}: multiple targets in {short(st)}')
            r = roles.role(fn, st.value)
            if _unknown(r):
                raise Undecided(f'{q}: cannot name the origin of the value stored by {short(st)}: {_unknown(r)}')
            if r == {'N'}:
                narrow.append((q, fn, st))
                ctx.ok(f'{q}: the range stored for the branch is (project range) intersect (condition range)')
            elif r == {'P'}:
                if not isinstance(st.value, ast.Name):
                    raise Undecided(f'{q}: {short(st)} stores a fresh read of the table, not a saved range')
                restore.setdefault(id(fn), []).append(st)
            else:
                ctx.violation(mod, q, st, f'`{norm(st)}` stores {_fmt(r)}; while a branch is evaluated the entry must be the intersection of the '
                              f'project range with the condition range, afterwards the saved project range', st)
    ctx.floor('narrowing stores', len(narrow), 1)

    # (c) K1: after the narrowing the saved range is stored back on every way out (and before it is read again)
    for q, g, st in narrow:
        frames: T.List[T.Tuple[str, FuncNode, ast.AST]] = []
        if saves.get(id(g)):
            frames.append((q, g, st))
        else:
            for f, c in roles.callers(g):
                fq = next(k for k, v in roles.funcs.items() if v is f)
                frames.append((fq, f, c))
            if not frames:
                raise Undecided(f'{q} narrows the range but neither saves it nor is called inside the module')
        for fq, f, site in frames:
            cfg = CFG(f)
            at = cfg.node_containing(site) if not isinstance(site, ast.stmt) else cfg.stmt_nodes(site)
            sv = [n for s in saves.get(id(f), []) for n in cfg.stmt_nodes(s)]
            rs = [n for s in restore.get(id(f), []) for n in cfg.stmt_nodes(s)]
            if not at or not sv:
                raise Undecided(f'{fq}: the narrowing site or the read that saves the project range is not in the control-flow graph')
            # (d) the condition range is per condition: between two uses of self.tmp_meson_version (next branch of the same
            #     if/elif chain) it must have been reset, otherwise a branch without a version test inherits the previous one's range
            resets = [n for n in cfg.nodes if n.kind == 'stmt' and isinstance(n.ast, ast.Assign) and any(attr_chain(t) == f'self.{COND}' for t in n.ast.targets)
                      and isinstance(n.ast.value, ast.Constant) and n.ast.value.value is None]
            if resets:
                for a in at:
                    ctx.require(cfg.dominated_by_any(a, resets), f'{fq}: the condition range is reset before the condition is evaluated', mod, fq, 'condition range reset',
                                f'`{short(site)}` uses self.{COND} on a path on which it was not reset to None first', site)
                    stale = cfg.can_reach(a, a, avoid=resets)
                    ctx.require(not stale, f'{fq}: the condition range is reset between two branches', mod, fq, 'condition range reset per branch',
                                f'from `{short(site)}` the next branch of the chain is reached without resetting self.{COND}: a branch whose condition has no '
                                f'version test is narrowed by the previous branch\'s range', site)
            sinks = [cfg.exit_return, cfg.exit_raise] + sv
            for a in at:
                ctx.require(cfg.dominated_by_any(a, sv), f'{fq}: the project range is saved before it is narrowed', mod, fq, site,
                            f'`{short(site)}` narrows project_meson_versions[..] on a path that has not saved the previous range', site)
                leaks = [s for s in sinks if cfg.can_reach(a, s, avoid=rs)]
                # a generator used as a context manager: the exception of the with-body is thrown in at `yield`
                region = cfg.reachable([a], avoid=rs)
                restores = restore.get(id(f), [])

                def covered(y: ast.AST) -> bool:
                    for t in ast.walk(f):
                        if isinstance(t, ast.Try) and any(y is n for b in t.body + t.orelse + [x for h in t.handlers for x in h.body] for n in ast.walk(b)) \
                                and any(r_ is n for r_ in restores for b in t.finalbody for n in ast.walk(b)):
                            return True          # a finally runs whatever way the body, a handler or the else part is left
                        if isinstance(t, ast.Try) and any(y is n for b in t.body for n in ast.walk(b)):
                            for h in t.handlers:
                                if (h.type is None or norm(h.type) == 'BaseException') and any(r_ is n for r_ in restores for b in h.body for n in ast.walk(b)):
                                    return True
                    return False
                for n in cfg.nodes:
                    if n.id in region and n.ast is not None and n.kind == 'stmt' and any(isinstance(y, (ast.Yield, ast.YieldFrom)) for y in ast.walk(n.ast)) \
                            and not covered(n.ast):
                        leaks.append(cfg.exit_raise)
                # (e) exceptions of statements OUTSIDE any try (sa.cfg draws exception edges only inside a try): a call that runs build-file
                #     statements can leave through a control-flow request (continue / break / subdir_done are exceptions derived directly
                #     from BaseException and are caught further up, evaluation then goes on); while the narrowed range is in force such a
                #     call must stand under a try whose finally/catch-all stores the saved range back
                raisers = _request_raisers(ctx, mod, roles)
                reported = False
                owner = fq.rsplit('.', 1)[0] if '.' in fq else ''
                for n in cfg.nodes:
                    if n.id not in region or n.expr() is None:
                        continue
                    for c in walk_no_nested(n.expr()):
                        if not (isinstance(c, ast.Call) and isinstance(c.func, ast.Attribute) and attr_chain(c.func.value) == 'self') or covered(c):
                            continue
                        callee = f'{owner}.{c.func.attr}' if owner else c.func.attr
                        target = roles.funcs.get(callee)
                        if target is not None and target is not f and any(_is_table_item(t) for x in walk_no_nested(target, include_root=False)
                                                                          if isinstance(x, ast.Assign) for t in x.targets):
                            raise Undecided(f'{fq}: `{short(c)}` runs while the narrowed range is in force and `{callee}` stores into {TABLE}[..] itself: '
                                            f'a restore inside a helper is not read')
                        if callee in raisers:
                            if any(isinstance(t, ast.Try) and any(c is y for b in t.body for y in ast.walk(b))
                                   and any(r_ is y for r_ in restores for h in t.handlers for b in h.body for y in ast.walk(b)) for t in ast.walk(f)):
                                raise Undecided(f'{fq}: `{short(c)}` stands under a handler that stores the saved range back but does not catch everything: '
                                                f'which exceptions it covers is not read')
                            reported = True
                            ctx.violation(mod, fq, 'branch left by a control-flow request without restoring the saved range',
                                          f'`{short(c)}` runs build-file statements while the narrowed range is stored ({raisers[callee]}) and is not inside a try whose '
                                          f'finally / catch-all handler stores the saved project range back: when the block executes continue, break or subdir_done() '
                                          f'the narrowed meson_version range stays in force for the rest of the project', c)
                if reported and not leaks:
                    continue          # reported above with the call that leaks
                ctx.require(not leaks, f'{fq}: the saved range is stored back on every way out of the branch', mod, fq, site,
                            f'after `{short(site)}` there is a path to {["the next read of the table" if s in sv else s.kind for s in leaks]} that does not '
                            f'store the saved project range back (the narrowed meson_version range would leak into the following code)', site)


# ---------------------------------------------------------------------------------------------------------
# C19.R6 — call sites of version_compare_many: the result is a 3-tuple (verdict, failed, satisfied); a non-empty
# tuple is always true, so using the whole result where a truth value is wanted makes every constraint list "hold"
# (K8 call-site agreement, decided for every call site in mesonbuild/).
# ---------------------------------------------------------------------------------------------------------

def _truth_context(parents: T.Dict[int, ast.AST], n: ast.AST) -> T.Optional[str]:
    """The construct that takes the truth value of expression `n` directly, if any."""
    par = parents.get(id(n))
    if isinstance(par, (ast.If, ast.While, ast.IfExp, ast.Assert)) and par.test is n:
        return par.__class__.__name__.lower() + ' test'
    if isinstance(par, ast.comprehension) and any(n is c for c in par.ifs):
        return 'comprehension filter'
    if isinstance(par, ast.UnaryOp) and isinstance(par.op, ast.Not):
        return '`not`'
    if isinstance(par, ast.BoolOp):
        return '`and`/`or` operand' if _truth_context(parents, par) is not None or par.values[-1] is not n else None
    if isinstance(par, ast.Call) and isinstance(par.func, ast.Name) and par.func.id == 'bool' and par.args == [n]:
        return 'bool()'
    return None


def r6(ctx: RuleCtx) -> None:
    # built-in positive example
    ex = ast.parse('if version_compare_many(v, reqs):\n    pass\n')
    pm: T.Dict[int, ast.AST] = {}
    for x in ast.walk(ex):
        for ch in ast.iter_child_nodes(x):
            pm[id(ch)] = x
    assert _truth_context(pm, ex.body[0].test) == 'if test', 'truth-context self-test'      # type: ignore[attr-defined]
    ex2 = ast.parse('if len(matched) > 0 and not failed:\n    pass\n')
    pm2: T.Dict[int, ast.AST] = {}
    for x in ast.walk(ex2):
        for ch in ast.iter_child_nodes(x):
            pm2[id(ch)] = x
    names = {n.id: n for n in ast.walk(ex2) if isinstance(n, ast.Name)}
    assert _tested(pm2, names['matched']) and _tested(pm2, names['failed']) and _in_test(pm2, names['failed']), 'element-test self-test'
    sites = 0
    for rel in ctx.repo.py_files('mesonbuild'):
        if 'version_compare_many' not in ctx.repo.read(rel):
            continue
        mod = ctx.repo.module(rel)
        parents: T.Dict[int, ast.AST] = {}
        for x in ast.walk(mod.tree):
            for ch in ast.iter_child_nodes(x):
                parents[id(ch)] = x
        for c in ast.walk(mod.tree):
            if not (isinstance(c, ast.Call) and ((isinstance(c.func, ast.Name) and c.func.id == 'version_compare_many')
                                                 or (isinstance(c.func, ast.Attribute) and c.func.attr == 'version_compare_many'))):
                continue
            sites += 1
            q = mod.enclosing_func(c) or '<module>'
            how = _truth_context(parents, c)
            subject: ast.AST = c
            if how is None:
                # `res = version_compare_many(..)` ... `if res:`: follow a plain local within the function
                par = parents.get(id(c))
                if isinstance(par, ast.Assign) and len(par.targets) == 1 and isinstance(par.targets[0], ast.Name) and par.value is c and mod.has_func(q):
                    name = par.targets[0].id
                    for u in ast.walk(mod.func(q)):
                        if isinstance(u, ast.Name) and u.id == name and isinstance(u.ctx, ast.Load) and _truth_context(parents, u) is not None:
                            how, subject = _truth_context(parents, u), u
                            break
            ctx.require(how is None, f'{rel}:{q}: the verdict of version_compare_many is taken from the tuple, not the tuple itself', mod, q, 'version_compare_many result used as a truth value',
                        f'`{short(parents.get(id(subject), subject), 90)}`: the 3-tuple returned by version_compare_many is used as a truth value ({how}); a non-empty tuple is always '
                        f'true, so the constraint list "holds" whatever the version - index the verdict with [0]', c)
            _r6_elements(ctx, mod, q, c, parents)
    ctx.floor('call sites of version_compare_many', sites, 1)


def _tested(parents: T.Dict[int, ast.AST], u: ast.AST) -> bool:
    """`u` is looked at as a truth value: directly, or as `len(u)` / `len(u) <op> 0` / `u ==|!= []`."""
    if _truth_context(parents, u) is not None:
        return True
    par = parents.get(id(u))
    if isinstance(par, ast.Call) and isinstance(par.func, ast.Name) and par.func.id == 'len' and par.args == [u]:
        if _truth_context(parents, par) is not None:
            return True
        u, par = par, parents.get(id(par))
        return isinstance(par, ast.Compare) and len(par.ops) == 1 and isinstance(([par.left] + par.comparators)[1 if par.left is u else 0], ast.Constant) \
            and _truth_context(parents, par) is not None
    if isinstance(par, ast.Compare) and len(par.ops) == 1 and isinstance(par.ops[0], (ast.Eq, ast.NotEq)):
        other = par.comparators[0] if par.left is u else par.left
        return isinstance(other, (ast.List, ast.Tuple)) and not other.elts and _truth_context(parents, par) is not None
    return False


def _in_test(parents: T.Dict[int, ast.AST], u: ast.AST) -> bool:
    """`u` occurs somewhere inside the test of an if/while/conditional expression/assert/comprehension filter."""
    n: T.Optional[ast.AST] = u
    while n is not None and not isinstance(n, ast.stmt):
        par = parents.get(id(n))
        if isinstance(par, (ast.If, ast.While, ast.IfExp, ast.Assert)) and par.test is n:
            return True
        if isinstance(par, ast.comprehension) and any(n is x for x in par.ifs):
            return True
        n = par
    return False


def _examined(parents: T.Dict[int, ast.AST], u: ast.AST) -> bool:
    """The emptiness of `u` may be what is computed: `not u`, `len(u)`, `bool(u)`, `u == ..`, also when the result is named first (C3)."""
    par = parents.get(id(u))
    if isinstance(par, ast.UnaryOp) and isinstance(par.op, ast.Not):
        return True
    if isinstance(par, ast.Call) and isinstance(par.func, ast.Name) and par.func.id in ('len', 'bool') and par.args == [u]:
        return True
    return isinstance(par, (ast.Compare, ast.BoolOp, ast.IfExp)) or _in_test(parents, u)


def _r6_elements(ctx: RuleCtx, mod: Module, q: str, c: ast.Call, parents: T.Dict[int, ast.AST]) -> None:
    """Which ELEMENT of (verdict, failed, satisfied) a call site decides on.  "Every requirement holds" is the verdict or
    "failed is empty"; "satisfied is non-empty" only says that SOME requirement holds.  A site that tests the satisfied list
    while it consults neither the verdict (any use) nor the failed list (in a test) decides on the wrong question.  Uses
    are attributed to the call by reaching definitions on the CFG (the same names may be unpacked again further down)."""
    par = parents.get(id(c))
    what = 'version_compare_many: decision taken on the satisfied list only'

    def report(u: ast.AST) -> None:
        ctx.violation(mod, q, what, f'`{short(parents.get(id(u), u), 90)}` tests the third element of the result of `{short(c, 70)}` (the requirements that matched) and this call site '
                      f'consults neither the verdict (1st element) nor the failed requirements (2nd element): it accepts as soon as ANY requirement holds, '
                      f'e.g. a version above the range for [">=11.0", "<12.0"] (a constraint list holds iff each constraint holds)', u)
    if isinstance(par, ast.Subscript) and par.value is c:
        if isinstance(par.slice, ast.Constant) and par.slice.value in (2, -1) and _tested(parents, par):
            report(par)
        else:
            ctx.ok(f'{mod.rel}:{q}: element {short(par.slice)} of the result is used')
        return
    if not (isinstance(par, ast.Assign) and par.value is c and len(par.targets) == 1 and mod.has_func(q)):
        return
    tgt = par.targets[0]
    fn = mod.func(q)
    elem: T.Dict[int, T.Optional[str]] = {}          # element index -> local name (None: stored somewhere else, i.e. consulted)
    whole: T.Optional[str] = None
    if isinstance(tgt, ast.Tuple):
        star = [i for i, e in enumerate(tgt.elts) if isinstance(e, ast.Starred)]
        if len(star) > 1 or (not star and len(tgt.elts) != 3) or len(tgt.elts) > 3 + len(star):
            raise Undecided(f'{q}: cannot attribute the targets of {short(par)} to (verdict, failed, satisfied)')
        for i, e in enumerate(tgt.elts):
            if isinstance(e, ast.Starred):
                continue
            k = i if not star or i < star[0] else 3 - (len(tgt.elts) - i)
            elem[k] = e.id if isinstance(e, ast.Name) else None
    elif isinstance(tgt, ast.Name):
        whole = tgt.id
    else:
        return
    cfg = CFG(fn)
    dn = cfg.stmt_nodes(par)
    if not dn:
        raise Undecided(f'{q}: {short(par)} is not in the control-flow graph')

    def reached(name: str) -> T.List[ast.Name]:
        """Loads of `name` that this assignment reaches (no other binding of the name in between)."""
        others = [n for n in cfg.nodes if n.ast is not par and n.kind in ('stmt', 'iter', 'with_enter') and n.ast is not None
                  and any(isinstance(x, ast.Name) and x.id == name and isinstance(x.ctx, (ast.Store, ast.Del))
                          for x in (ast.walk(n.ast.target) if n.kind == 'iter' else walk_no_nested(n.ast) if n.kind == 'stmt' else
                                    [y for it in n.ast.items if it.optional_vars is not None for y in ast.walk(it.optional_vars)]))]      # type: ignore[union-attr]
        region = cfg.reachable(dn, avoid=others)
        # a rebinding statement still reads its right-hand side before it binds
        edge = {o.id for o in others if any(o.id == b for r_ in (region | {d.id for d in dn}) for b, _l in cfg.succ[r_])}
        out: T.List[ast.Name] = []
        for n in cfg.nodes:
            if (n.id in region or n.id in edge) and n.expr() is not None:
                out.extend(x for x in ast.walk(n.expr()) if isinstance(x, ast.Name) and x.id == name and isinstance(x.ctx, ast.Load))     # type: ignore[arg-type]
        return out
    uses: T.Dict[int, T.List[ast.AST]] = {0: [], 1: [], 2: []}
    if whole is not None:
        for u in reached(whole):
            sub = parents.get(id(u))
            if isinstance(sub, ast.Subscript) and sub.value is u and isinstance(sub.slice, ast.Constant) and isinstance(sub.slice.value, int) and -3 <= sub.slice.value < 3:
                uses[sub.slice.value % 3].append(sub)
            elif _truth_context(parents, u) is None:
                return            # the tuple is passed on / unpacked later: not followed
    else:
        for k, name in elem.items():
            if name is not None:
                uses[k] = list(reached(name))
    consulted = (0 in elem and elem[0] is None) or bool(uses[0]) or (1 in elem and elem[1] is None) or any(_examined(parents, u) for u in uses[1])
    tested = [u for u in uses[2] if _tested(parents, u)]
    if tested and not consulted:
        report(tested[0])
    else:
        ctx.ok(f'{mod.rel}:{q}: the site consults the verdict / the failed requirements' if consulted else f'{mod.rel}:{q}: the satisfied list is not used as a decision')


# ---------------------------------------------------------------------------------------------------------
# C19.R7 — the verdict handed to the build file.  The method that records the condition range
# (`<interpreter>.tmp_meson_version = version_check_to_range(..)`) must answer with the verdict of version_compare_many:
# the Range is only a superset of the satisfying versions ('!=' removes at most an extremum), so membership in it is
# not "every constraint holds" (K3 must-flow of the returned value; positive evidence only).
# ---------------------------------------------------------------------------------------------------------

STRING = 'mesonbuild/interpreter/primitives/string.py'


def r7(ctx: RuleCtx) -> None:
    mod = ctx.repo.module(STRING)
    roles = Roles(mod)
    n = 0
    for q, fn in roles.funcs.items():
        if not any(isinstance(st, ast.Assign) and any((attr_chain(t) or '').endswith('.' + COND) for t in st.targets) for st in walk_no_nested(fn, include_root=False)):
            continue

        def resolve(e: ast.AST, depth: int = 0) -> ast.AST:
            while isinstance(e, ast.Name) and depth < 5:
                ds = roles.defs(fn).get(e.id) or []
                if len(ds) != 1 or ds[0] is None:
                    break
                e, depth = ds[0], depth + 1
            return e
        for ret in [x for x in walk_no_nested(fn, include_root=False) if isinstance(x, ast.Return) and x.value is not None]:
            v = resolve(ret.value)
            while isinstance(v, ast.Call) and norm(v.func) == 'bool' and len(v.args) == 1:
                v = resolve(v.args[0])
            if isinstance(v, ast.Subscript) and isinstance(v.slice, ast.Constant) and v.slice.value == 0:
                inner = resolve(v.value)
                if isinstance(inner, ast.Call) and (attr_chain(inner.func) or '').split('.')[-1] == 'version_compare_many':
                    n += 1
                    ctx.ok(f'{q}: answers with the verdict of version_compare_many')
                    continue
            if isinstance(v, ast.Compare) and len(v.ops) == 1 and isinstance(v.ops[0], (ast.In, ast.NotIn)):
                rng = resolve(v.comparators[0])
                if isinstance(rng, ast.Call) and (attr_chain(rng.func) or '').split('.')[-1] == 'version_check_to_range':
                    n += 1
                    ctx.violation(mod, q, 'range membership returned as the verdict', f'`{norm(ret)}` answers with membership in the range built by version_check_to_range; that range is '
                                  f'only a superset of the satisfying versions (a `!=` check removes at most an extremum), so e.g. version 1.5 "satisfies" [">=1.0", "!=1.5"]', ret)
                    continue
            raise Undecided(f'{q}: cannot trace the returned value {short(ret)} to version_compare_many')
    if not n:
        raise Undecided(f'{STRING}: no method records the condition range (written differently)')
    # the recorded range must be exact: version_check_to_range only over-approximates a `!=` constraint, so on a path on
    # which a constraint was seen to start with '!' the condition range must not be recorded (always() would report a
    # constant verdict for a condition that is not constant).  Paths are enumerated; boolean flags are followed by
    # constant propagation along the path.
    from ..paths import enumerate_paths
    for q, fn in roles.funcs.items():
        stores = [st for st in walk_no_nested(fn, include_root=False) if isinstance(st, ast.Assign) and any((attr_chain(t) or '').endswith('.' + COND) for t in st.targets)
                  and not (isinstance(st.value, ast.Constant) and st.value.value is None)]
        if not stores:
            continue

        def neq_test(e: ast.AST) -> T.Optional[bool]:
            """True: `<constraint>[.strip()].startswith('!')` or any(<that> for ..); None: mentions such a test in another shape."""
            def base(x: ast.AST) -> bool:
                return isinstance(x, ast.Call) and isinstance(x.func, ast.Attribute) and x.func.attr == 'startswith' and len(x.args) == 1 \
                    and isinstance(x.args[0], ast.Constant) and x.args[0].value in ('!', '!=')
            if base(e):
                return True
            if isinstance(e, ast.Call) and isinstance(e.func, ast.Name) and e.func.id == 'any' and len(e.args) == 1 \
                    and isinstance(e.args[0], (ast.GeneratorExp, ast.ListComp)) and base(e.args[0].elt) and not any(g.ifs for g in e.args[0].generators):
                return True
            if isinstance(e, ast.Call) and isinstance(e.func, ast.Attribute) and attr_chain(e.func.value) in ('self', q.split('.')[0]):
                # a predicate helper of the class (E1): it is such a test if it answers True exactly on the paths that saw one
                helper = next((f for k, f in roles.funcs.items() if k == f'{q.split(".")[0]}.{e.func.attr}'), None)
                if helper is not None:
                    verdicts = set()
                    for hp in enumerate_paths(helper.body, unroll=1):
                        saw = any(ev.kind == 'cond' and ev.node is not None and base(ev.node) and ev.val for ev in hp.events)
                        if hp.outcome != 'return' or not (isinstance(hp.value, ast.Constant) and isinstance(hp.value.value, bool)):
                            return None if any(base(x) for x in ast.walk(helper)) else False
                        verdicts.add((saw, hp.value.value))
                    if verdicts and all(a == b for a, b in verdicts) and any(a for a, _ in verdicts):
                        return True
                    return None if any(base(x) for x in ast.walk(helper)) else False
            return None if any(base(x) for x in ast.walk(e)) else False
        tests = 0
        stored_paths = 0
        for path in enumerate_paths(fn.body, unroll=1):
            consts: T.Dict[str, bool] = {}
            flags: T.Set[str] = set()
            feasible, seen_neq, bad = True, False, None
            for ev in path.events:
                if ev.node is None:
                    continue
                if ev.kind == 'cond':
                    if isinstance(ev.node, ast.Name) and ev.node.id in consts and consts[ev.node.id] != ev.val:
                        feasible = False
                        break
                    k = True if isinstance(ev.node, ast.Name) and ev.node.id in flags else neq_test(ev.node)
                    if k is None:
                        raise Undecided(f'{q}: cannot read the test {short(ev.node)} for `!=` constraints')
                    if k:
                        tests += 1
                        seen_neq = seen_neq or bool(ev.val)
                elif ev.kind == 'stmt' and isinstance(ev.node, ast.Assign):
                    for t in ev.node.targets:
                        if isinstance(t, ast.Name):
                            flags.discard(t.id)
                            if isinstance(ev.node.value, ast.Constant) and isinstance(ev.node.value.value, bool):
                                consts[t.id] = ev.node.value.value
                            else:
                                consts.pop(t.id, None)
                                kk = neq_test(ev.node.value)
                                if kk is None:
                                    raise Undecided(f'{q}: cannot read {short(ev.node)} as a test for `!=` constraints')
                                if kk:
                                    flags.add(t.id)          # the flag IS the test (C3: condition named first)
                    if any(ev.node is x for x in stores):
                        stored_paths += 1
                        if seen_neq:
                            bad = ev.node
            if feasible and bad is not None:
                ctx.violation(mod, q, 'condition range recorded for a != constraint', f'`{short(bad)}` is reached on the path `{path.describe()[:200]}` on which a constraint was seen to '
                              f'start with `!`: the range of a `!=` check is only a superset, so Range.always() would call the condition constant when it is not', bad)
                break
        else:
            if not tests:
                raise Undecided(f'{q}: no test for `!=` constraints was found before the condition range is recorded (written differently)')
            if not stored_paths:
                raise Undecided(f'{q}: the condition range is never recorded on an enumerated path')
            ctx.ok(f'{q}: the condition range is not recorded on a path that saw a `!=` constraint')
