"""C14 helper: language facts about *one alternative* of a repository regex.

sa.rx builds its NFA from a pattern string only and over-approximates look-around; C14.R2 needs the
language of each top-level alternative separately, with the look-behind / look-ahead split off and
checked on its own.  This module builds the same kind of Thompson NFA from a `re._parser` item list
and decides language *equality* with a reference pattern (subset construction on the fly over the
representative alphabet of sa.rx); the witness of a difference is returned.
"""
from __future__ import annotations

import typing as T

from .. import rx
from ..core import Undecided

sre_c = rx.sre_c


def nfa_of_items(items: T.Sequence[T.Any], ignorecase: bool = False, max_unroll: int = 6) -> rx.NFA:
    nfa = rx.NFA()

    def seq(its: T.Any, s: int) -> int:
        for op, av in its:
            s = one(op, av, s)
        return s

    def one(op: T.Any, av: T.Any, s: int) -> int:
        if op is sre_c.LITERAL:
            t = nfa.new()
            c = chr(av)
            nfa.trans[s].append(((lambda ch, c=c: ch == c or (ignorecase and ch.lower() == c.lower())), t))
            return t
        if op is sre_c.NOT_LITERAL:
            t = nfa.new()
            c = chr(av)
            nfa.trans[s].append(((lambda ch, c=c: ch != c), t))
            return t
        if op is sre_c.ANY:
            t = nfa.new()
            nfa.trans[s].append(((lambda ch: ch != '\n'), t))
            return t
        if op is sre_c.IN:
            t = nfa.new()
            nfa.trans[s].append(((lambda ch, av=av: rx._in_match(av, ch, ignorecase)), t))
            return t
        if op is sre_c.BRANCH:
            t = nfa.new()
            for b in av[1]:
                b0 = nfa.new()
                nfa.eps[s].append(b0)
                nfa.eps[seq(b, b0)].append(t)
            return t
        if op is sre_c.SUBPATTERN:
            return seq(av[3], s)
        if op in (sre_c.MAX_REPEAT, sre_c.MIN_REPEAT):
            lo, hi, sub = av
            if lo > max_unroll:
                raise Undecided('regex repeat count outside the supported subset')
            for _ in range(lo):
                s = seq(sub, s)
            if hi is sre_c.MAXREPEAT:
                loop = nfa.new()
                nfa.eps[s].append(loop)
                end = seq(sub, loop)
                nfa.eps[end].append(loop)
                return loop
            if hi > max_unroll + lo:
                raise Undecided('regex repeat count outside the supported subset')
            out = nfa.new()
            nfa.eps[s].append(out)
            for _ in range(hi - lo):
                s = seq(sub, s)
                nfa.eps[s].append(out)
            return out
        raise Undecided(f'regex construct {op} outside the supported subset (in an alternative body)')

    nfa.accept = seq(items, nfa.start)
    return nfa


def split_lookaround(items: T.Sequence[T.Any]) -> T.Tuple[T.List[T.Any], T.List[T.Any], T.List[T.Any]]:
    """(leading look-behind assertions, body, trailing look-ahead assertions) of one alternative.
    An assertion anywhere else is outside the supported subset."""
    its = list(items)
    lead: T.List[T.Any] = []
    trail: T.List[T.Any] = []
    while its and its[0][0] in (sre_c.ASSERT, sre_c.ASSERT_NOT):
        lead.append(its.pop(0))
    while its and its[-1][0] in (sre_c.ASSERT, sre_c.ASSERT_NOT):
        trail.insert(0, its.pop())

    def has_assert(x: T.Any) -> bool:
        for op, av in x:
            if op in (sre_c.ASSERT, sre_c.ASSERT_NOT, sre_c.AT, sre_c.GROUPREF):
                return True
            if op is sre_c.BRANCH and any(has_assert(b) for b in av[1]):
                return True
            if op is sre_c.SUBPATTERN and has_assert(av[3]):
                return True
            if op in (sre_c.MAX_REPEAT, sre_c.MIN_REPEAT) and has_assert(av[2]):
                return True
        return False
    if has_assert(its):
        raise Undecided('regex alternative with an inner assertion / anchor / back-reference')
    return lead, its, trail


def difference(items: T.Sequence[T.Any], ref_pattern: str, extra: T.Iterable[str] = (), max_len: int = 10) -> T.Optional[T.Tuple[str, str]]:
    """None when L(items) == L(ref_pattern) over the representative alphabet; otherwise
    (word, 'only-code' | 'only-reference')."""
    a = nfa_of_items(items)
    ref_items = list(rx.parse(ref_pattern))
    b = nfa_of_items(ref_items)
    chars: T.Set[str] = set(rx.BASE_SAMPLES) | set(extra)
    rx._collect_chars(items, chars)
    rx._collect_chars(ref_items, chars)
    alpha = sorted(chars)
    start = (a.closure([a.start]), b.closure([b.start]))
    seen = {start: ''}
    todo = [start]
    while todo:
        nxt = []
        for st in todo:
            w = seen[st]
            ina, inb = a.accept in st[0], b.accept in st[1]
            if ina != inb:
                return (w, 'only-code' if ina else 'only-reference')
            if len(w) >= max_len:
                continue
            for c in alpha:
                x, y = a.step(st[0], c), b.step(st[1], c)
                if not x and not y:
                    continue
                if (x, y) not in seen:
                    seen[(x, y)] = w + c
                    nxt.append((x, y))
        todo = nxt
    return None


def find_group(items: T.Sequence[T.Any], gid: int) -> T.Optional[T.Any]:
    """The item list captured by group number gid inside items (None if absent)."""
    for op, av in items:
        if op is sre_c.SUBPATTERN:
            if av[0] == gid:
                return av[3]
            r = find_group(av[3], gid)
            if r is not None:
                return r
        elif op is sre_c.BRANCH:
            for b in av[1]:
                r = find_group(b, gid)
                if r is not None:
                    return r
        elif op in (sre_c.MAX_REPEAT, sre_c.MIN_REPEAT):
            r = find_group(av[2], gid)
            if r is not None:
                return r
        elif op in (sre_c.ASSERT, sre_c.ASSERT_NOT):
            r = find_group(av[1], gid)
            if r is not None:
                return r
    return None


def can_contain(items: T.Sequence[T.Any], ch: str) -> bool:
    """Can a word of L(items) contain the character ch?"""
    nfa = nfa_of_items(items)
    chars: T.Set[str] = set(rx.BASE_SAMPLES) | {ch}
    rx._collect_chars(items, chars)
    alpha = sorted(chars)
    start = (nfa.closure([nfa.start]), False)
    seen = {start}
    todo = [start]
    while todo:
        st, flag = todo.pop()
        if flag and nfa.accept in st:
            return True
        for c in alpha:
            nx = nfa.step(st, c)
            if not nx:
                continue
            item = (nx, flag or c == ch)
            if item not in seen:
                seen.add(item)
                todo.append(item)
    return False


def can_end_with(items: T.Sequence[T.Any], ch: str) -> bool:
    """Can a word of L(items) end with the character ch?"""
    nfa = nfa_of_items(items)
    chars: T.Set[str] = set(rx.BASE_SAMPLES) | {ch}
    rx._collect_chars(items, chars)
    alpha = sorted(chars)
    start = (nfa.closure([nfa.start]), False)
    seen = {start}
    todo = [start]
    while todo:
        st, last = todo.pop()
        if last and nfa.accept in st:
            return True
        for c in alpha:
            nx = nfa.step(st, c)
            if not nx:
                continue
            item = (nx, c == ch)
            if item not in seen:
                seen.add(item)
                todo.append(item)
    return False
