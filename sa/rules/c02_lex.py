"""C02.R5 (line/column accounting in Lexer.lex, K11 + K4) and C02.R6 (extents of spliced nodes, K5)."""
from __future__ import annotations

import ast
import typing as T

from ..core import Undecided, attr_chain, norm, short, walk_no_nested, names_in, call_method
from ..paths import enumerate_paths, Path
from ..consteval import Folder, Regex
from .. import rx
from ..report import RuleCtx
from .c02_model import model_for, NodeModel, MPARSER, params_of

TWO_NEWLINES = r'[\s\S]*\n[\s\S]*\n[\s\S]*'


class _Env:
    """Where an expression is to be read: the function whose single-definition locals may be read through (None: module level) and
    the parameters of that function bound to (argument expression, environment of the caller)."""
    def __init__(self, fn: T.Optional[ast.AST] = None, bound: T.Optional[T.Dict[str, T.Tuple[ast.AST, '_Env']]] = None):
        self.fn = fn
        self.bound = bound or {}
        self.defs: T.Dict[str, T.List[T.Optional[ast.AST]]] = {}
        if fn is not None:
            for st in walk_no_nested(fn):
                if isinstance(st, ast.Assign):
                    for t in st.targets:
                        for n in ast.walk(t):
                            if isinstance(n, ast.Name):
                                self.defs.setdefault(n.id, []).append(st.value if isinstance(t, ast.Name) else None)
                elif isinstance(st, ast.AnnAssign) and isinstance(st.target, ast.Name):
                    self.defs.setdefault(st.target.id, []).append(st.value)
                elif isinstance(st, (ast.AugAssign, ast.For, ast.NamedExpr, ast.comprehension)):
                    for n in ast.walk(st.target):
                        if isinstance(n, ast.Name):
                            self.defs.setdefault(n.id, []).extend([None, None])
                elif isinstance(st, ast.Call) and isinstance(st.func, ast.Attribute) and isinstance(st.func.value, ast.Name) \
                        and st.func.attr in ('append', 'extend', 'insert', 'update', 'pop', 'remove', 'sort', 'reverse', 'clear', 'add', 'discard', 'setdefault'):
                    self.defs.setdefault(st.func.value.id, []).extend([None, None])     # mutated in place: not a constant

    def lookup(self, name: str) -> T.Optional[T.Tuple[ast.AST, '_Env']]:
        if name in self.bound:
            return self.bound[name]
        d = self.defs.get(name)
        if d is not None:
            if len(d) == 1 and d[0] is not None:
                return d[0], self
            raise Undecided(f'local `{name}` of the lexer table construction has several definitions or is modified in place')
        return None


def _callee(mod: T.Any, c: ast.Call, env: _Env) -> T.Optional[T.Tuple[ast.expr, _Env]]:
    """A call of a module-level function / a method of Lexer that only computes a value (assignments + one return): the returned
    expression and the environment that binds the parameters to the argument expressions of this call."""
    name = attr_chain(c.func) or ''
    fn = None
    bound_self = False
    if '.' not in name and mod.has_func(name):
        fn = mod.func(name)
    elif name.split('.')[0] in ('self', 'Lexer', 'cls') and name.count('.') == 1 and mod.has_func('Lexer.' + name.split('.')[1]):
        fn = mod.func('Lexer.' + name.split('.')[1])
        from ..core import decorator_names
        bound_self = 'staticmethod' not in decorator_names(fn)
    if fn is None:
        return None
    body = [st for st in fn.body if not (isinstance(st, ast.Expr) and isinstance(st.value, ast.Constant))]
    if not body or not isinstance(body[-1], ast.Return) or body[-1].value is None \
            or not all(isinstance(st, (ast.Assign, ast.AnnAssign)) for st in body[:-1]):
        return None
    a = fn.args
    if a.vararg or a.kwarg or any(isinstance(x, ast.Starred) for x in c.args) or any(k.arg is None for k in c.keywords):
        return None
    pos = [x.arg for x in a.posonlyargs + a.args]
    if bound_self:
        pos = pos[1:]
    bound: T.Dict[str, T.Tuple[ast.AST, _Env]] = {}
    nodef = _Env()
    for prm, dflt in zip(reversed(a.posonlyargs + a.args), reversed(a.defaults)):
        bound[prm.arg] = (dflt, nodef)
    for prm, dflt2 in zip(a.kwonlyargs, a.kw_defaults):
        if dflt2 is not None:
            bound[prm.arg] = (dflt2, nodef)
    if len(c.args) > len(pos):
        return None
    for prm_name, arg in zip(pos, c.args):
        bound[prm_name] = (arg, env)
    for k in c.keywords:
        bound[T.cast(str, k.arg)] = (k.value, env)
    if any(p_ not in bound for p_ in pos + [x.arg for x in a.kwonlyargs]):
        return None
    return body[-1].value, _Env(fn, bound)


def _alternatives(ctx: RuleCtx, mod: T.Any, e: ast.AST, env: _Env, depth: int = 0) -> T.List[T.Any]:
    """Constant values an expression can take: conditional expressions contribute both arms (the test - a constructor flag - is
    not decided), names are read through parameters / single-definition locals, everything else is folded."""
    if depth > 12:
        raise Undecided('lexer table construction nests too deep')
    if isinstance(e, ast.IfExp):
        return _alternatives(ctx, mod, e.body, env, depth + 1) + _alternatives(ctx, mod, e.orelse, env, depth + 1)
    if isinstance(e, ast.Name):
        got = env.lookup(e.id)
        if got is not None:
            return _alternatives(ctx, mod, got[0], got[1], depth + 1)
    if isinstance(e, ast.Call) and (attr_chain(e.func) or '') in ('T.cast', 'typing.cast') and len(e.args) == 2:
        return _alternatives(ctx, mod, e.args[1], env, depth + 1)
    return [fold_expr(ctx.repo, mod, e)]


def _spec_entries(ctx: RuleCtx, mod: T.Any, e: ast.AST, env: _Env, depth: int = 0) -> T.List[T.Tuple[str, T.List[T.Any]]]:
    """Normal form of an expression that builds the ordered regex table: [(token id, [regex alternatives])].  Read through
    displays with starred parts, `+`, copies (list()/tuple()/[:]/.copy()), names (parameters, single-definition locals, module
    constants), value-only helper functions, and a conditional between two tables with the same ids."""
    if depth > 12:
        raise Undecided('lexer table construction nests too deep')
    rec = lambda x, en=env: _spec_entries(ctx, mod, x, en, depth + 1)   # noqa: E731
    if isinstance(e, (ast.List, ast.Tuple)):
        out: T.List[T.Tuple[str, T.List[T.Any]]] = []
        for el in e.elts:
            if isinstance(el, ast.Starred):
                out += rec(el.value)
            else:
                out.append(_spec_entry(ctx, mod, el, env, depth + 1))
        return out
    if isinstance(e, ast.BinOp) and isinstance(e.op, ast.Add):
        return rec(e.left) + rec(e.right)
    if isinstance(e, ast.Subscript) and isinstance(e.slice, ast.Slice) and e.slice.lower is None and e.slice.upper is None and e.slice.step is None:
        return rec(e.value)
    if isinstance(e, ast.IfExp):
        a, b = rec(e.body), rec(e.orelse)
        if [t for t, _ in a] != [t for t, _ in b]:
            raise Undecided(f'token_specification: the two arms of `{short(e)}` declare different token ids')
        return [(t, ra + [r for r in rb if r not in ra]) for (t, ra), (_, rb) in zip(a, b)]
    if isinstance(e, ast.Name):
        got = env.lookup(e.id)
        if got is not None:
            return _spec_entries(ctx, mod, got[0], got[1], depth + 1)
        if mod.has_assign(e.id):
            return _spec_entries(ctx, mod, mod.assign_value(e.id), _Env(), depth + 1)
    if isinstance(e, ast.Attribute) and attr_chain(e) and attr_chain(e).split('.')[0] in ('self', 'Lexer', 'cls') and attr_chain(e).count('.') == 1 \
            and mod.has_assign(e.attr, mod.cls('Lexer')):
        return _spec_entries(ctx, mod, mod.assign_value(e.attr, mod.cls('Lexer')), _Env(), depth + 1)
    if isinstance(e, ast.Call):
        name = attr_chain(e.func) or ''
        if name in ('list', 'tuple') and len(e.args) == 1 and not e.keywords:
            return rec(e.args[0])
        if name in ('T.cast', 'typing.cast') and len(e.args) == 2:
            return rec(e.args[1])
        if isinstance(e.func, ast.Attribute) and e.func.attr == 'copy' and not e.args:
            return rec(e.func.value)
        got2 = _callee(mod, e, env)
        if got2 is not None:
            return _spec_entries(ctx, mod, got2[0], got2[1], depth + 1)
    raise Undecided(f'token_specification: `{short(e)}` is not read as an ordered table of (token id, regex) pairs')


def _spec_entry(ctx: RuleCtx, mod: T.Any, el: ast.AST, env: _Env, depth: int) -> T.Tuple[str, T.List[T.Any]]:
    if isinstance(el, ast.Name):
        got = env.lookup(el.id)
        if got is not None:
            return _spec_entry(ctx, mod, got[0], got[1], depth + 1)
        if mod.has_assign(el.id):
            return _spec_entry(ctx, mod, mod.assign_value(el.id), _Env(), depth + 1)
    if not (isinstance(el, ast.Tuple) and len(el.elts) == 2):
        raise Undecided(f'token_specification entry {short(el)}')
    tids = _alternatives(ctx, mod, el.elts[0], env, depth)
    rs = _alternatives(ctx, mod, el.elts[1], env, depth)
    if len(tids) != 1 or not isinstance(tids[0], str):
        raise Undecided(f'token_specification entry {short(el)}: token id is not one constant string')
    if not rs or not all(isinstance(r, Regex) for r in rs):
        raise Undecided(f'token_specification entry {short(el)} does not fold to a regex')
    return tids[0], rs


def _fold_through(ctx: RuleCtx, mod: T.Any, e: ast.AST, env: _Env, depth: int = 0) -> T.Any:
    """Fold a constant table; names are read through single-definition locals, value-only helpers are read through."""
    try:
        return fold_expr(ctx.repo, mod, e)
    except Undecided:
        if depth > 6:
            raise
        if isinstance(e, ast.Name):
            got = env.lookup(e.id)
            if got is not None:
                return _fold_through(ctx, mod, got[0], got[1], depth + 1)
        if isinstance(e, ast.Call):
            name = attr_chain(e.func) or ''
            if name in ('dict', 'set', 'list', 'tuple', 'frozenset') and len(e.args) == 1 and not e.keywords:
                return _fold_through(ctx, mod, e.args[0], env, depth + 1)
            if isinstance(e.func, ast.Attribute) and e.func.attr == 'copy' and not e.args:
                return _fold_through(ctx, mod, e.func.value, env, depth + 1)
            got2 = _callee(mod, e, env)
            if got2 is not None:
                return _fold_through(ctx, mod, got2[0], got2[1], depth + 1)
        raise


def lexer_tables(ctx: RuleCtx) -> T.Tuple[T.List[T.Tuple[str, T.List[Regex]]], T.Dict[str, str], T.Set[str]]:
    mod = ctx.repo.module(MPARSER)
    cached = mod.__dict__.get('_c02_lexer_tables')
    if cached is not None:
        return cached
    init = mod.func('Lexer.__init__')
    spec: T.List[T.Tuple[str, T.List[Regex]]] = []
    single: T.Dict[str, str] = {}
    kws: T.Set[str] = set()
    env = _Env(init)
    for st in walk_no_nested(init):
        if not isinstance(st, (ast.Assign, ast.AnnAssign)) or st.value is None:
            continue
        tgt = attr_chain(st.targets[0] if isinstance(st, ast.Assign) else st.target)
        if tgt == 'self.token_specification':
            if spec:
                raise Undecided('token_specification is assigned more than once in Lexer.__init__')
            spec = _spec_entries(ctx, mod, st.value, env)
        elif tgt == 'self.single_char_tokens':
            single = _fold_through(ctx, mod, st.value, env)
            if not isinstance(single, dict):
                raise Undecided('single_char_tokens does not fold to a mapping')
        elif tgt in ('self.keywords', 'self.future_keywords'):
            kws |= set(_fold_through(ctx, mod, st.value, env))
    if not spec or not single:
        raise Undecided('lexer tables not found in Lexer.__init__')
    mod.__dict__['_c02_lexer_tables'] = (spec, single, kws)
    return spec, single, kws


class _TableFolder(Folder):
    """Constant folding that also reads the total lookups of a constant mapping: `M.get(k[, d])`."""
    def f_Call(self, e: ast.Call) -> T.Any:
        if isinstance(e.func, ast.Attribute) and e.func.attr == 'get' and 1 <= len(e.args) <= 2 and not e.keywords:
            base = self.fold(e.func.value)
            if isinstance(base, dict):
                k = self.fold(e.args[0])
                d = self.fold(e.args[1]) if len(e.args) == 2 else None
                try:
                    return base.get(k, d)
                except TypeError as ex:
                    raise Undecided(f'cannot fold {short(e)}: {ex}')
        return super().f_Call(e)

    def f_Compare(self, e: ast.Compare) -> T.Any:
        if len(e.ops) == 1 and isinstance(e.ops[0], (ast.Is, ast.IsNot)):
            l, r = self.fold(e.left), self.fold(e.comparators[0])
            if r is None or l is None:
                return (l is r) if isinstance(e.ops[0], ast.Is) else (l is not r)
        return super().f_Compare(e)


def fold_expr(repo: T.Any, mod: T.Any, e: ast.AST, env: T.Optional[T.Dict[str, T.Any]] = None) -> T.Any:   # noqa: F811 (shadows the engine's on purpose)
    return _TableFolder(repo, mod, None, env).fold(e)


def fold_cond(repo: T.Any, mod: T.Any, e: ast.AST, env: T.Dict[str, T.Any]) -> T.Optional[bool]:
    """Truth of a condition over variables bound in `env` (a declared token id) and constants, through and/or/not, comparison
    chains, ==/!=/in/not in/is; None when it depends on anything else."""
    if isinstance(e, ast.BoolOp):
        vals = [fold_cond(repo, mod, v, env) for v in e.values]
        if isinstance(e.op, ast.And):
            return False if any(v is False for v in vals) else (True if all(v is True for v in vals) else None)
        return True if any(v is True for v in vals) else (False if all(v is False for v in vals) else None)
    if isinstance(e, ast.UnaryOp) and isinstance(e.op, ast.Not):
        v = fold_cond(repo, mod, e.operand, env)
        return None if v is None else not v
    try:
        if isinstance(e, ast.Compare):
            vals2 = [fold_expr(repo, mod, x, env=env) for x in [e.left] + list(e.comparators)]
            res = True
            for op, a, b in zip(e.ops, vals2, vals2[1:]):
                if isinstance(op, (ast.Eq, ast.Is)):
                    r = a == b
                elif isinstance(op, (ast.NotEq, ast.IsNot)):
                    r = a != b
                elif isinstance(op, ast.In):
                    r = a in b
                elif isinstance(op, ast.NotIn):
                    r = a not in b
                else:
                    return None
                res = res and r
            return bool(res)
        return bool(fold_expr(repo, mod, e, env=env))
    except (Undecided, TypeError):
        return None


def _table_helper(mod: T.Any, loop: ast.While) -> T.Optional[T.Tuple[str, str, str]]:
    """`X = self.h(..)` + `if X is not None: tid, mo = X ... else: <single character>` where Lexer.h walks the regex table and
    returns (token id, match) for the first match, else None -> (X, tid, mo)."""
    for st in loop.body:
        if isinstance(st, ast.Assign) and isinstance(st.targets[0], ast.Name) and isinstance(st.value, ast.Call) \
                and (attr_chain(st.value.func) or '').startswith('self.') and mod.has_func('Lexer.' + (attr_chain(st.value.func) or '')[5:]):
            h = mod.func('Lexer.' + (attr_chain(st.value.func) or '')[5:])
            fors = [f for f in h.body if isinstance(f, ast.For) and norm(f.iter) == 'self.token_specification' and isinstance(f.target, ast.Tuple) and len(f.target.elts) == 2]
            rets = [r for r in walk_no_nested(h) if isinstance(r, ast.Return)]
            if len(fors) != 1 or not rets:
                continue
            t0 = norm(fors[0].target.elts[0])
            tup = [r for r in rets if isinstance(r.value, ast.Tuple) and len(r.value.elts) == 2 and norm(r.value.elts[0]) == t0]
            none = [r for r in rets if r.value is None or (isinstance(r.value, ast.Constant) and r.value.value is None)]
            if len(tup) + len(none) != len(rets) or not tup or any(not any(r is x for x in ast.walk(fors[0])) for r in tup):
                continue
            x = st.targets[0].id
            for br in loop.body:
                if isinstance(br, ast.If) and names_in(br.test) == {x} and br.orelse:
                    pos = br.body if norm(br.test) in (x, f'{x} is not None') else br.orelse if norm(br.test) in (f'{x} is None', f'not {x}') else None
                    if pos and isinstance(pos[0], ast.Assign) and isinstance(pos[0].targets[0], ast.Tuple) and len(pos[0].targets[0].elts) == 2 \
                            and norm(pos[0].value) == x:
                        return x, norm(pos[0].targets[0].elts[0]), norm(pos[0].targets[0].elts[1])
    return None


def lex_roles(mod: T.Any) -> T.Dict[str, T.Any]:
    """Names of the scanner's working variables, derived from their roles (not from their spelling): the loop guard gives the
    position, the regex-table loop the token id and the match object, the yielded Token(...) the value / line / line-start variables."""
    lex = mod.func('Lexer.lex')
    wl = [w for w in ast.walk(lex) if isinstance(w, ast.While)]
    if len(wl) != 1 or not (isinstance(wl[0].test, ast.Compare) and len(wl[0].test.ops) == 1):
        raise Undecided('Lexer.lex: expected one scanning loop guarded by `<pos> < len(...)`')
    pos_ = wl[0].test.left if isinstance(wl[0].test.left, ast.Name) else wl[0].test.comparators[0]
    if not isinstance(pos_, ast.Name):
        raise Undecided('Lexer.lex: expected one scanning loop guarded by `<pos> < len(...)`')
    sl = [f for f in wl[0].body if isinstance(f, ast.For) and norm(f.iter) == 'self.token_specification']
    sel = None
    if not sl:
        # the table loop extracted into a helper returning (token id, match) or None
        got = _table_helper(mod, wl[0])
        if got is None:
            raise Undecided('Lexer.lex: regex table loop with single-character fallback not recognised')
        sel, tid, mo0 = got
        sl = [None]  # type: ignore[list-item]
        mo = [mo0]
    else:
        if len(sl) != 1 or not sl[0].orelse or not (isinstance(sl[0].target, ast.Tuple) and len(sl[0].target.elts) == 2):
            raise Undecided('Lexer.lex: regex table loop with single-character fallback not recognised')
        tid = norm(sl[0].target.elts[0])
        mo = [norm(st.targets[0]) for st in ast.walk(sl[0]) if isinstance(st, ast.Assign) and isinstance(st.value, ast.Call)
              and call_method(st.value) == 'match' and isinstance(st.targets[0], ast.Name)]
        mo += [st.target.id for st in ast.walk(sl[0]) if isinstance(st, ast.NamedExpr) and isinstance(st.value, ast.Call) and call_method(st.value) == 'match']
    ys = [y.value for y in ast.walk(lex) if isinstance(y, ast.Yield) and isinstance(y.value, ast.Call) and norm(y.value.func) == 'Token']
    if len(ys) != 1 or len(mo) != 1:
        raise Undecided('Lexer.lex: the single `yield Token(...)` / the regex match assignment was not recognised')
    fields = [st.target.id for st in mod.cls('Token').body if isinstance(st, ast.AnnAssign) and isinstance(st.target, ast.Name)]
    given: T.Dict[str, ast.AST] = dict(zip(fields, ys[0].args))
    given.update({k.arg: k.value for k in ys[0].keywords if k.arg})
    out: T.Dict[str, T.Any] = {'lex': lex, 'while': wl[0], 'spec_loop': sl[0], 'sel': sel, 'tid': tid, 'mo': mo[0], 'loc': pos_.id}
    span = resolve_locals(lex, given.get('bytespan'))
    out['start'] = None
    if isinstance(span, ast.Tuple) and len(span.elts) == 2:
        st0 = resolve_locals(lex, span.elts[0])
        if isinstance(span.elts[0], ast.Name):
            out['start'] = span.elts[0].id       # the local that remembers where the token started
    for role in ('tid', 'value', 'lineno', 'line_start'):
        e = resolve_locals(lex, given.get(role))
        if not isinstance(e, ast.Name):
            raise Undecided(f'Lexer.lex: Token field `{role}` is not fed from a plain variable')
        if role == 'tid' and e.id != tid:
            raise Undecided('Lexer.lex: the yielded token id is not the loop variable of the regex table loop')
        out[role] = e.id
    return out


class _LexPath:
    def __init__(self, p: Path, tid: str, mode: str):
        self.p, self.tid, self.mode = p, tid, mode


def _feasible(ctx: RuleCtx, mod: T.Any, p: Path, tid: str, mode: str, spec_loop: ast.For, R: T.Dict[str, T.Any]) -> T.Optional[T.Dict[str, T.Any]]:
    """Walk one path of the scanning loop body for a token that starts as `tid`; None when the path contradicts it."""
    cur: T.Optional[str] = tid if mode == 'regex' else None
    took_loop = False
    info: T.Dict[str, T.Any] = {'assigned': [], 'guards': [], 'stmts': []}
    # locals computed from the token id and constants only (`delta = TABLE.get(tid)`): their value is known for this token id, so
    # tests on them select paths exactly like tests on the id itself; `tainted` ones depend on the id but could not be folded
    derived: T.Dict[str, T.Any] = {}
    tainted: T.Set[str] = set()
    role_names = {R['tid'], R['value'], R['lineno'], R['line_start'], R['loc'], R['mo']}

    def bind_derived(target: ast.AST, value: ast.AST) -> None:
        tnames = [n.id for n in ast.walk(target) if isinstance(n, ast.Name)]
        if not tnames or any(n in role_names for n in tnames) or any(not isinstance(n, (ast.Name, ast.Tuple, ast.List)) for n in ast.walk(target)
                                                                      if not isinstance(n, ast.expr_context)):
            return
        deps = names_in(value)
        if not (R['tid'] in deps or deps & (set(derived) | tainted)):
            for n in tnames:
                derived.pop(n, None)
                tainted.discard(n)
            return
        val: T.Any = None
        ok = cur is not None and not (deps & tainted)
        if ok:
            try:
                val = fold_expr(ctx.repo, mod, value, env={**derived, R['tid']: cur})
            except (Undecided, TypeError):
                ok = False
        if ok and isinstance(target, (ast.Tuple, ast.List)):
            ok = isinstance(val, (tuple, list)) and len(val) == len(target.elts) and all(isinstance(t, ast.Name) for t in target.elts)
        for n in tnames:
            derived.pop(n, None)
            tainted.discard(n)
        if not ok:
            tainted.update(tnames)
        elif isinstance(target, ast.Name):
            derived[target.id] = val
        else:
            for t, v in zip(target.elts, val):      # type: ignore[union-attr]
                derived[t.id] = v                   # type: ignore[attr-defined]
    for ev in p.events:
        if ev.kind == 'iter' and spec_loop is not None and ev.node is spec_loop:
            if ev.val == 'iter':
                took_loop = True
            continue
        if ev.kind == 'cond':
            names = names_in(ev.node)
            if R.get('sel') and names == {R['sel']}:
                t = norm(ev.node)
                is_regex = ev.val if t in (R['sel'], f"{R['sel']} is not None") else (not ev.val) if t in (f"{R['sel']} is None",) else None
                if is_regex is None:
                    raise Undecided(f'Lexer.lex: test `{t}` on the table-lookup result')
                if is_regex != (mode == 'regex'):
                    return None
                took_loop = True
                continue
            if norm(ev.node) == R['mo'] or (isinstance(ev.node, ast.NamedExpr) and ev.node.target.id == R['mo']):
                if mode == 'regex' and not ev.val:
                    return None
                if mode == 'single' and ev.val:
                    return None
                continue
            if isinstance(ev.node, ast.NamedExpr) and isinstance(ev.node.target, ast.Name):
                bind_derived(ev.node.target, ev.node.value)
            if names & tainted:
                info.setdefault('open', []).append(ev.node)               # depends on the token id through a local that was not folded
                continue
            if (R['tid'] in names or names & set(derived)) and (cur is not None or R['tid'] not in names):
                v = fold_cond(ctx.repo, mod, ev.node, {**derived, R['tid']: cur} if cur is not None else dict(derived))    # other names may be module-level constant tables
                if v is None:
                    info.setdefault('open', []).append(ev.node)           # a test on the token id that cannot be decided
                elif v != ev.val:
                    return None
                continue
            if R['tid'] in names and cur is None:
                continue
            info['guards'].append((ev.node, ev.val))
            continue
        if ev.kind != 'stmt':
            continue
        st = ev.node
        info['stmts'].append(st)
        if isinstance(st, ast.Assign) and isinstance(st.targets[0], (ast.Tuple, ast.List)):
            for t in st.targets[0].elts:
                if isinstance(t, ast.Name) and t.id in (R['lineno'], R['line_start']):
                    info['assigned'].append(('lineno' if t.id == R['lineno'] else 'line_start', st))
        if isinstance(st, ast.Assign) and len(st.targets) == 1:
            bind_derived(st.targets[0], st.value)
        elif isinstance(st, ast.AnnAssign) and st.value is not None:
            bind_derived(st.target, st.value)
        elif isinstance(st, ast.AugAssign) and isinstance(st.target, ast.Name) and st.target.id in derived:
            del derived[st.target.id]
            tainted.add(st.target.id)
        if isinstance(st, (ast.Assign, ast.AugAssign)):
            tg = st.targets[0] if isinstance(st, ast.Assign) else st.target
            if isinstance(tg, ast.Name):
                if tg.id == R['tid']:
                    if isinstance(st.value, ast.Constant):
                        cur = st.value.value
                    elif isinstance(st.value, ast.Subscript) and norm(st.value.value) == 'self.single_char_tokens' and mode == 'single':
                        cur = tid
                    else:
                        cur = None
                    tainted.update(derived)       # values computed from the previous id are stale
                    derived.clear()
                if tg.id in (R['lineno'], R['line_start']):
                    info['assigned'].append(('lineno' if tg.id == R['lineno'] else 'line_start', st))
    if mode == 'regex' and not took_loop:
        return None
    if mode == 'single' and any(isinstance(e.node, ast.Break) for e in p.events if e.kind == 'stmt'):
        return None
    return info


def _newline_guard(info: T.Dict[str, T.Any]) -> bool:
    nl_names: T.Set[str] = set()
    for st in info['stmts']:
        if isinstance(st, ast.Assign) and isinstance(st.targets[0], ast.Name) and "'\\n'" in norm(st.value):
            nl_names.add(st.targets[0].id)
    for node, val in info['guards']:
        if "'\\n'" in norm(node) or names_in(node) & nl_names:
            return True
    return False


def strip_table(ctx: RuleCtx) -> T.Dict[str, T.Tuple[str, str]]:
    """For every token id of the regex table: the text the lexer removes from the start and the end of the matched text before it
    becomes Token.value - the number of characters from the `value = value[a:-b]` statements on the feasible paths of that id,
    the characters themselves from the literal prefix/suffix of the token regex.  Ids without such a statement map to ('', '')."""
    import re._constants as sc
    mod = ctx.repo.module(MPARSER)
    spec, single, _ = lexer_tables(ctx)
    R = lex_roles(mod)
    paths = enumerate_paths(R['while'].body, unroll=1)
    out: T.Dict[str, T.Tuple[str, str]] = {}
    for tid, regs in spec:
        cuts: T.Set[T.Tuple[int, int]] = set()
        for p in paths:
            info = _feasible(ctx, mod, p, tid, 'regex', R['spec_loop'], R)
            if info is None:
                continue
            lo = hi = 0
            cenv: T.Dict[str, T.Any] = {R['tid']: tid}
            for st in info['stmts']:
                if isinstance(st, ast.Assign) and isinstance(st.targets[0], ast.Name) and st.targets[0].id not in (R['value'], R['tid']):
                    try:
                        cv = fold_expr(ctx.repo, mod, st.value, env=cenv)      # a named constant of this token id (`quote_start = 2 if ... else 1`)
                        if isinstance(cv, (int, str)):
                            cenv[st.targets[0].id] = cv
                    except Undecided:
                        cenv.pop(st.targets[0].id, None)
                if isinstance(st, (ast.Assign, ast.AugAssign)) and norm(st.targets[0] if isinstance(st, ast.Assign) else st.target) == R['value']:
                    v = st.value
                    if isinstance(st, ast.Assign) and isinstance(v, ast.Call) and call_method(v) == 'group' and not v.args:
                        continue    # value = <match>.group(): the matched text itself
                    if not (isinstance(st, ast.Assign) and isinstance(v, ast.Subscript) and norm(v.value) == R['value'] and isinstance(v.slice, ast.Slice)
                            and v.slice.step is None):
                        raise Undecided(f'Lexer.lex: token `{tid}`: `{short(st)}` changes the token text in a way that is not a slice')
                    a = fold_expr(ctx.repo, mod, v.slice.lower, env=cenv) if v.slice.lower is not None else 0
                    b = fold_expr(ctx.repo, mod, v.slice.upper, env=cenv) if v.slice.upper is not None else 0
                    if not (isinstance(a, int) and isinstance(b, int) and a >= 0 and b <= 0):
                        raise Undecided(f'Lexer.lex: token `{tid}`: slice bounds of `{short(st)}`')
                    lo, hi = lo + a, hi - b
            cuts.add((lo, hi))
        if len(cuts) != 1:
            raise Undecided(f'Lexer.lex: token `{tid}`: stripped lengths differ between paths or no path found: {sorted(cuts)}')
        lo, hi = cuts.pop()
        pres: T.Set[str] = set()
        posts: T.Set[str] = set()
        for r in regs:
            items = list(rx.parse(r.pattern, r.flags))
            pre = rx.literal_prefix(items)
            post = ''
            for op, av in reversed(items):
                if op is sc.LITERAL:
                    post = chr(av) + post
                else:
                    break
            if len(pre) < lo or len(post) < hi:
                raise Undecided(f'Lexer.lex: token `{tid}`: {lo}/{hi} characters are stripped but the regex fixes only {pre!r}...{post!r}')
            pres.add(pre[:lo])
            posts.add(post[len(post) - hi:] if hi else '')
        if len(pres) != 1 or len(posts) != 1:
            raise Undecided(f'Lexer.lex: token `{tid}`: alternative regexes with different delimiters')
        out[tid] = (pres.pop(), posts.pop())
    return out


def check_lines(ctx: RuleCtx) -> None:
    mod = ctx.repo.module(MPARSER)
    spec, single, kws = lexer_tables(ctx)
    ids = [t for t, _ in spec] + list(single.values()) + sorted(kws)
    ctx.require(all(isinstance(t, str) and t for t in ids), f'all {len(ids)} token ids in the lexer tables are non-empty strings', mod, 'Lexer.__init__',
                'token ids', 'an empty token id makes accept_any() report "nothing consumed" after consuming')
    R = lex_roles(mod)
    lex, body, spec_loops = R['lex'], R['while'].body, [R['spec_loop']]
    paths = enumerate_paths(body, unroll=1)
    cases: T.List[T.Tuple[str, str, T.Optional[Regex]]] = []
    for tid, rs in spec:
        for r in rs:
            if rx.matches_char(r.pattern, '\n', r.flags):
                cases.append((tid, 'regex', r))
                break
    for ch, tid in single.items():
        if ch == '\n':
            cases.append((tid, 'single', None))
    ctx.floor('token kinds that can contain a newline', len(cases), 6)
    not_nl = [tid for tid, rs in spec if all(not rx.matches_char(r.pattern, '\n', r.flags) for r in rs)]
    ctx.ok(f'token regexes that cannot match a newline: {not_nl}')
    groups: T.Dict[str, T.List[str]] = {}
    details: T.Dict[str, T.Tuple[ast.AST, str]] = {}
    for tid, mode, r in cases:
        infos = [i for i in (_feasible(ctx, mod, p, tid, mode, spec_loops[0], R) for p in paths) if i is not None]
        if not infos:
            raise Undecided(f'Lexer.lex: no path for token id {tid}')
        both = [i for i in infos if {n for n, _ in i['assigned']} == {'lineno', 'line_start'}]
        one = [i for i in infos if len({n for n, _ in i['assigned']}) == 1]
        none_unguarded = [i for i in infos if not i['assigned'] and not _newline_guard(i)]
        arm = _arm_test(lex, tid, ctx, mod, R) if mode == 'regex' else f"tid == '{tid}' (single character)"
        key = norm(arm) if not isinstance(arm, str) else arm
        doubtful = [i for i in (one + none_unguarded) if i.get('open')]
        if doubtful:
            raise Undecided(f'Lexer.lex: token `{tid}`: the condition `{short(doubtful[0]["open"][0])}` on the token id could not be decided; '
                            'the paths it selects are not judged')
        if not both or one or none_unguarded:
            why = ('only one of lineno/line_start is updated on some path' if one else
                   'neither lineno nor line_start is updated although the token text can contain a newline' if not both else
                   'a path without newline guard updates neither lineno nor line_start')
            groups.setdefault(key, []).append(tid)
            details[key] = (arm if not isinstance(arm, str) else lex, why)
            continue
        ctx.ok(f'token `{tid}` ({mode}): {len(both)} of {len(infos)} paths update lineno and line_start, the others are newline-guarded')
        seen_f: T.Set[T.Tuple[int, ...]] = set()
        for i in both:
            k = tuple(id(st) for _, st in i['assigned'])
            if k not in seen_f:
                seen_f.add(k)
                _check_formula(ctx, mod, lex, tid, mode, r, i, R)
    for key, tids in groups.items():
        node, why = details[key]
        ctx.violation(mod, 'Lexer.lex', key, f'token kind(s) {tids} can match a newline (regex language) but in their branch {why}: '
                      f'every later token gets a wrong line and column', node if isinstance(node, ast.AST) else None)


def _arm_test(lex: ast.AST, tid: str, ctx: RuleCtx, mod: T.Any, R: T.Dict[str, T.Any]) -> T.Any:
    for n in ast.walk(lex):
        if isinstance(n, ast.If) and names_in(n.test) == {R['tid']}:
            if fold_cond(ctx.repo, mod, n.test, {R['tid']: tid}):
                return n.test
    return f'(no branch for {tid})'


def _check_formula(ctx: RuleCtx, mod: T.Any, lex: ast.AST, tid: str, mode: str, r: T.Optional[Regex], info: T.Dict[str, T.Any], R: T.Dict[str, T.Any]) -> None:
    """lineno must grow by the number of newlines in the token, line_start must become the offset just after the last one."""
    stmts = info['stmts']
    ln = [st for n, st in info['assigned'] if n == 'lineno']
    ls = [st for n, st in info['assigned'] if n == 'line_start']
    if len(ln) != 1 or len(ls) != 1 or ln[0] is ls[0]:
        raise Undecided(f'Lexer.lex: several (or a combined) update of lineno/line_start for {tid}')
    ln, ls = ln[0], ls[0]
    # Walk the statements of the path in order: remember what each local was bound to (so named intermediate results are read
    # through), and how many characters were stripped from the front / the back of the token text so far.
    import copy
    V, tidv = R['value'], R['tid']
    env: T.Dict[str, ast.AST] = {}
    front = back = 0
    seen: T.Dict[int, T.Tuple[ast.AST, int, int]] = {}

    def subst(e: ast.AST) -> ast.AST:
        class S(ast.NodeTransformer):
            def visit_Name(self, n: ast.Name) -> ast.AST:
                if isinstance(n.ctx, ast.Load) and n.id in env:
                    return copy.deepcopy(env[n.id])
                return n
        e2 = S().visit(copy.deepcopy(e))
        try:
            v = fold_expr(ctx.repo, mod, e2, env={tidv: tid})
            if isinstance(v, int) and not isinstance(v, bool):
                return ast.Constant(value=v)
        except Undecided:
            pass
        return e2
    roles = {R['lineno'], R['line_start'], R['loc'], V, tidv}
    for st in stmts:
        if st is ln or st is ls:
            seen[id(st)] = (subst(st.value), front, back)
            continue
        if isinstance(st, ast.Assign) and norm(st.targets[0]) == V:
            v = st.value
            if isinstance(v, ast.Subscript) and norm(v.value) == V and isinstance(v.slice, ast.Slice) and v.slice.step is None:
                lo = subst(v.slice.lower) if v.slice.lower is not None else ast.Constant(value=0)
                hi = subst(v.slice.upper) if v.slice.upper is not None else ast.Constant(value=0)
                if not (isinstance(lo, ast.Constant) and isinstance(hi, (ast.Constant, ast.UnaryOp))):
                    raise Undecided(f'Lexer.lex: token `{tid}`: slice bounds of `{short(st)}` are not constants for this token id')
                front += lo.value
                back += -(fold_expr(ctx.repo, mod, hi))
            env = {k: e for k, e in env.items() if V not in names_in(e)}
        elif isinstance(st, ast.Assign) and isinstance(st.targets[0], ast.Name) and st.targets[0].id not in roles:
            env[st.targets[0].id] = subst(st.value)
    if id(ln) not in seen or id(ls) not in seen:
        raise Undecided(f'Lexer.lex: token `{tid}`: line bookkeeping statements not on the path')
    lnv, _, _ = seen[id(ln)]
    lsv, front_ls, back_ls = seen[id(ls)]
    inc = _increment(ast.AugAssign(target=ln.target, op=ln.op, value=lnv) if isinstance(ln, ast.AugAssign) else ast.Assign(targets=ln.targets, value=lnv), R['lineno'])  # type: ignore[attr-defined]
    if inc is None or not isinstance(ls, ast.Assign):
        raise Undecided(f'Lexer.lex: token `{tid}`: `{short(ln)}` / `{short(ls)}` are not an increment of lineno and an assignment of line_start')
    start = linear(lsv)
    if inc == ({}, 1) and start == ({R['loc']: 1}, 0):
        ends = mode == 'single' or (r is not None and r.pattern.endswith('\\n') and rx.intersects(r.pattern, TWO_NEWLINES, r.flags) is None)
        ctx.require(bool(ends), f'token `{tid}`: exactly one newline, at its end -> lineno += 1, line_start = loc', mod, 'Lexer.lex', ls,
                    f'token `{tid}`: `{short(ln)}; {short(ls)}` is only right for a token that ends with its single newline', ls)
        return
    SPL = f"{V}.split('\\n')"
    incs = [({f'len({SPL})': 1}, -1), ({f"{V}.count('\\n')": 1}, 0)]
    starts = [({R['loc']: 1, f'len({SPL}[-1])': -1}, -back_ls)]
    if R.get('start'):
        starts.append(({R['start']: 1, f"{V}.rfind('\\n')": 1}, 1 + front_ls))
    if set(inc[0]) not in [set(i_[0]) for i_ in incs] or set(start[0]) not in [set(s_[0]) for s_ in starts]:
        raise Undecided(f'Lexer.lex: token `{tid}`: `{short(ln)}` / `{short(ls)}` compute the line bookkeeping from quantities that are not understood '
                        f'(known forms: newline count of the text; offset behind its last newline from the end or from the start of the token)')
    ok = inc in incs and start in starts
    ctx.require(ok, f'token `{tid}`: lineno += newlines in the text, line_start = offset just behind its last newline', mod, 'Lexer.lex', ls,
                f'token `{tid}`: the updates `{short(ln)}` / `{short(ls)}` do not place line_start just after the last newline of the token '
                f'({front_ls} opening and {back_ls} closing characters were stripped from the text at that point: the constant is wrong)', ls)


def linear(e: ast.AST) -> T.Tuple[T.Dict[str, int], int]:
    """a + b - 3 -> ({'a': 1, 'b': 1}, -3): sums/differences of opaque terms and integer constants."""
    terms: T.Dict[str, int] = {}
    const = [0]

    def rec(x: ast.AST, sign: int) -> None:
        if isinstance(x, ast.BinOp) and isinstance(x.op, (ast.Add, ast.Sub)):
            rec(x.left, sign)
            rec(x.right, sign if isinstance(x.op, ast.Add) else -sign)
        elif isinstance(x, ast.UnaryOp) and isinstance(x.op, ast.USub):
            rec(x.operand, -sign)
        elif isinstance(x, ast.Constant) and isinstance(x.value, int) and not isinstance(x.value, bool):
            const[0] += sign * x.value
        else:
            k = norm(x)
            terms[k] = terms.get(k, 0) + sign
            if terms[k] == 0:
                del terms[k]
    rec(e, 1)
    return terms, const[0]


def _increment(st: ast.AST, name: str) -> T.Optional[T.Tuple[T.Dict[str, int], int]]:
    """The amount added to `name` by `name += e` / `name = name + e`."""
    if isinstance(st, ast.AugAssign) and isinstance(st.op, ast.Add):
        return linear(st.value)
    if isinstance(st, ast.Assign):
        t, c = linear(st.value)
        if t.get(name) == 1:
            t = dict(t)
            del t[name]
            return t, c
    return None


def resolve_locals(fn: ast.AST, e: T.Optional[ast.AST], depth: int = 0) -> T.Optional[ast.AST]:
    """Replace names that have exactly one plain definition in `fn` (and are not parameters) by that definition."""
    if e is None or depth > 4:
        return e
    params = {a.arg for a in fn.args.posonlyargs + fn.args.args + fn.args.kwonlyargs}  # type: ignore[attr-defined]
    defs: T.Dict[str, T.List[T.Optional[ast.AST]]] = {}
    for st in walk_no_nested(fn):
        if isinstance(st, ast.Assign):
            for t in st.targets:
                for n in ast.walk(t):
                    if isinstance(n, ast.Name):
                        defs.setdefault(n.id, []).append(st.value if isinstance(t, ast.Name) else None)
        elif isinstance(st, (ast.AugAssign, ast.AnnAssign, ast.For, ast.NamedExpr, ast.comprehension)):
            for n in ast.walk(st.target):
                if isinstance(n, ast.Name):
                    defs.setdefault(n.id, []).extend([None, None])

    class Sub(ast.NodeTransformer):
        def visit_Name(self, n: ast.Name) -> ast.AST:
            d = defs.get(n.id, [])
            if isinstance(n.ctx, ast.Load) and n.id not in params and len(d) == 1 and d[0] is not None:
                return resolve_locals(fn, d[0], depth + 1) or n
            return n
    import copy
    return Sub().visit(copy.deepcopy(e))


# -- R6 ------------------------------------------------------------------------------------------------
SPLICED = {'FunctionNode': 'full', 'ArrayNode': 'full', 'DictNode': 'full', 'ParenthesizedNode': 'full', 'MethodNode': 'end'}


def check_extents(ctx: RuleCtx, spliced: T.Optional[T.Dict[str, str]] = None) -> None:
    model = model_for(ctx.repo)
    mod = model.mod
    spec, single, _ = lexer_tables(ctx)
    ctx.require(all(len(k) == 1 for k in single), 'every single-character token has length 1 (the `+1` of the extents)', mod, 'Lexer.__init__',
                'single_char_tokens', 'a key of single_char_tokens is not one character long')
    # a SymbolNode's end equals its start: the root constructor defaults end_* to the start
    rfn = model.find(model.root, '__init__')[1]  # type: ignore[index]
    dflt = {}
    for st in walk_no_nested(rfn):
        if isinstance(st, ast.Assign) and attr_chain(st.targets[0]) in ('self.end_lineno', 'self.end_colno') and isinstance(st.value, ast.IfExp):
            dflt[attr_chain(st.targets[0])] = norm(st.value.orelse) if norm(st.value.test).endswith('is not None') else norm(st.value.body)
    sym_end_is_start = dflt == {'self.end_lineno': 'lineno', 'self.end_colno': 'colno'}
    sym_init = model.find('SymbolNode', '__init__')
    passes_end = any(isinstance(c, ast.Call) and (len(c.args) > 3 or c.keywords) for c in walk_no_nested(sym_init[1]) if isinstance(c, ast.Call)
                     and isinstance(c.func, ast.Attribute) and c.func.attr == '__init__') if sym_init else True
    if set(dflt) != {'self.end_lineno', 'self.end_colno'}:
        raise Undecided(f'{model.root}.__init__: how end_lineno/end_colno default is not understood')
    ctx.require(sym_end_is_start and not passes_end, 'SymbolNode: end position defaults to the start position', mod, f'{model.root}.__init__', rfn,
                'the end position of a symbol no longer defaults to its start: `x.end_colno + 1` and `x.colno + 1` differ')
    for cls, mode in (spliced or SPLICED).items():
        r = model.find(cls, '__init__')
        if r is None or r[0].name != cls:
            raise Undecided(f'{cls}: own __init__ expected')
        fn = r[1]
        fields = model.node_fields(cls)
        first_f, last_f = fields[0][0], fields[-1][0]
        stored = {}
        for st in walk_no_nested(fn):
            if isinstance(st, ast.Assign) and (attr_chain(st.targets[0]) or '').startswith('self.') and isinstance(st.value, ast.Name):
                stored[attr_chain(st.targets[0])[5:]] = st.value.id  # type: ignore[index]
        sup = [c for c in walk_no_nested(fn) if isinstance(c, ast.Call) and isinstance(c.func, ast.Attribute) and c.func.attr == '__init__']
        if len(sup) != 1 or first_f not in stored or last_f not in stored:
            raise Undecided(f'{cls}.__init__: base constructor call / field stores not recognised')
        c = sup[0]
        args = list(c.args)
        if isinstance(c.func.value, ast.Name):
            args = args[1:]
        kw = {k.arg: k.value for k in c.keywords}
        pf, pl = stored[first_f], stored[last_f]
        args = [resolve_locals(fn, a) for a in args]
        kw = {k: resolve_locals(fn, v) for k, v in kw.items()}
        others = [p_ for p_ in params_of(fn)[1:] if p_ not in (pf, pl)]

        def judge(e: T.Optional[ast.AST], good: T.List[T.Tuple[T.Dict[str, int], int]], owner: str, what: str, msg: str) -> None:
            """ok when the linear form of `e` is one of `good`; violation only on positive evidence (the right operand with another
            constant, or the position of a different constructor parameter); anything else is not understood."""
            if e is None:
                raise Undecided(f'{cls}.__init__: the {what} is not passed to the base constructor')
            lf = linear(e)
            if lf in good:
                ctx.ok(f'{cls}: {what} is `{short(e)}`')
                return
            bases = {t.split('.')[0] for t in lf[0]}
            if set(lf[0]) in [set(g[0]) for g in good] or (bases and bases <= set(others + ([pl] if owner == pf else [pf]))):
                ctx.violation(mod, f'{cls}.__init__', f'{what} of {cls}', msg.format(got=short(e)), c)
                return
            raise Undecided(f'{cls}.__init__: the {what} `{short(e)}` is not a position of a constructor parameter plus a constant')
        if mode == 'full':
            if len(args) < 2:
                raise Undecided(f'{cls}.__init__: start position not passed positionally')
            judge(args[0], [({f'{pf}.lineno': 1}, 0)], pf, 'start line', f'{cls} starts on line `{{got}}`; its textually first field is `{first_f}` (parameter {pf})')
            judge(args[1], [({f'{pf}.colno': 1}, 0)], pf, 'start column', f'{cls} starts at column `{{got}}`; its textually first field is `{first_f}` (parameter {pf})')
        el, ec = kw.get('end_lineno'), kw.get('end_colno')
        if el is None and len(args) > 3:
            el = args[3]
        if ec is None and len(args) > 4:
            ec = args[4]
        judge(el, [({f'{pl}.lineno': 1}, 0), ({f'{pl}.end_lineno': 1}, 0)], pl, 'end line', f'{cls} end line is `{{got}}`; the closing token is `{last_f}` (parameter {pl})')
        judge(ec, [({f'{pl}.colno': 1}, 1), ({f'{pl}.end_colno': 1}, 1)], pl, 'end column',
              f'{cls} end column is `{{got}}`; it must be the column of the closing token `{last_f}` plus its length 1')
