"""C02.R5 (line/column accounting in Lexer.lex, K11 + K4) and C02.R6 (extents of spliced nodes, K5)."""
from __future__ import annotations

import ast
import typing as T

from ..core import Undecided, attr_chain, norm, short, walk_no_nested, names_in, call_method
from ..paths import enumerate_paths, Path
from ..consteval import fold_expr, Regex
from .. import rx
from ..report import RuleCtx
from .c02_model import model_for, NodeModel, MPARSER, params_of

TWO_NEWLINES = r'[\s\S]*\n[\s\S]*\n[\s\S]*'


def lexer_tables(ctx: RuleCtx) -> T.Tuple[T.List[T.Tuple[str, T.List[Regex]]], T.Dict[str, str], T.Set[str]]:
    mod = ctx.repo.module(MPARSER)
    init = mod.func('Lexer.__init__')
    spec: T.List[T.Tuple[str, T.List[Regex]]] = []
    single: T.Dict[str, str] = {}
    kws: T.Set[str] = set()
    for st in walk_no_nested(init):
        if not isinstance(st, ast.Assign):
            continue
        tgt = attr_chain(st.targets[0])
        if tgt == 'self.token_specification':
            if not isinstance(st.value, ast.List):
                raise Undecided('token_specification is not a list display')
            for el in st.value.elts:
                if not (isinstance(el, ast.Tuple) and len(el.elts) == 2 and isinstance(el.elts[0], ast.Constant)):
                    raise Undecided(f'token_specification entry {short(el)}')
                alts = [el.elts[1].body, el.elts[1].orelse] if isinstance(el.elts[1], ast.IfExp) else [el.elts[1]]
                rs = [fold_expr(ctx.repo, mod, a) for a in alts]
                if not all(isinstance(r, Regex) for r in rs):
                    raise Undecided(f'token_specification entry {short(el)} does not fold to a regex')
                spec.append((el.elts[0].value, rs))
        elif tgt == 'self.single_char_tokens':
            single = fold_expr(ctx.repo, mod, st.value)
        elif tgt in ('self.keywords', 'self.future_keywords'):
            kws |= set(fold_expr(ctx.repo, mod, st.value))
    if not spec or not single:
        raise Undecided('lexer tables not found in Lexer.__init__')
    return spec, single, kws


def fold_cond(repo: T.Any, mod: T.Any, e: ast.AST, env: T.Dict[str, T.Any]) -> T.Optional[bool]:
    """Truth of a condition over variables bound in `env` (a declared token id) and constants, through and/or/not, comparison
    chains, ==/!=/in/not in/is; None when it depends on anything else."""
    if isinstance(e, ast.BoolOp):
        vals = [fold_cond(repo, mod, v, env) for v in e.values]
        if isinstance(e.op, ast.And):
            return False if any(v is False for v in vals) else (True if all(v is True for v in vals) else None)
        return True if any(v is True for v in vals) else (False if all(v is False for v in vals) else None)
    if isinstance(e, ast.UnaryOp) and isinstance(e.op, ast.Not):
        v = fold_cond(repo, mod, e.operand, env)
        return None if v is None else not v
    try:
        if isinstance(e, ast.Compare):
            vals2 = [fold_expr(repo, mod, x, env=env) for x in [e.left] + list(e.comparators)]
            res = True
            for op, a, b in zip(e.ops, vals2, vals2[1:]):
                if isinstance(op, (ast.Eq, ast.Is)):
                    r = a == b
                elif isinstance(op, (ast.NotEq, ast.IsNot)):
                    r = a != b
                elif isinstance(op, ast.In):
                    r = a in b
                elif isinstance(op, ast.NotIn):
                    r = a not in b
                else:
                    return None
                res = res and r
            return bool(res)
        return bool(fold_expr(repo, mod, e, env=env))
    except (Undecided, TypeError):
        return None


def _table_helper(mod: T.Any, loop: ast.While) -> T.Optional[T.Tuple[str, str, str]]:
    """`X = self.h(..)` + `if X is not None: tid, mo = X ... else: <single character>` where Lexer.h walks the regex table and
    returns (token id, match) for the first match, else None -> (X, tid, mo)."""
    for st in loop.body:
        if isinstance(st, ast.Assign) and isinstance(st.targets[0], ast.Name) and isinstance(st.value, ast.Call) \
                and (attr_chain(st.value.func) or '').startswith('self.') and mod.has_func('Lexer.' + (attr_chain(st.value.func) or '')[5:]):
            h = mod.func('Lexer.' + (attr_chain(st.value.func) or '')[5:])
            fors = [f for f in h.body if isinstance(f, ast.For) and norm(f.iter) == 'self.token_specification' and isinstance(f.target, ast.Tuple) and len(f.target.elts) == 2]
            rets = [r for r in walk_no_nested(h) if isinstance(r, ast.Return)]
            if len(fors) != 1 or not rets:
                continue
            t0 = norm(fors[0].target.elts[0])
            tup = [r for r in rets if isinstance(r.value, ast.Tuple) and len(r.value.elts) == 2 and norm(r.value.elts[0]) == t0]
            none = [r for r in rets if r.value is None or (isinstance(r.value, ast.Constant) and r.value.value is None)]
            if len(tup) + len(none) != len(rets) or not tup or any(not any(r is x for x in ast.walk(fors[0])) for r in tup):
                continue
            x = st.targets[0].id
            for br in loop.body:
                if isinstance(br, ast.If) and names_in(br.test) == {x} and br.orelse:
                    pos = br.body if norm(br.test) in (x, f'{x} is not None') else br.orelse if norm(br.test) in (f'{x} is None', f'not {x}') else None
                    if pos and isinstance(pos[0], ast.Assign) and isinstance(pos[0].targets[0], ast.Tuple) and len(pos[0].targets[0].elts) == 2 \
                            and norm(pos[0].value) == x:
                        return x, norm(pos[0].targets[0].elts[0]), norm(pos[0].targets[0].elts[1])
    return None


def lex_roles(mod: T.Any) -> T.Dict[str, T.Any]:
    """Names of the scanner's working variables, derived from their roles (not from their spelling): the loop guard gives the
    position, the regex-table loop the token id and the match object, the yielded Token(...) the value / line / line-start variables."""
    lex = mod.func('Lexer.lex')
    wl = [w for w in ast.walk(lex) if isinstance(w, ast.While)]
    if len(wl) != 1 or not (isinstance(wl[0].test, ast.Compare) and len(wl[0].test.ops) == 1):
        raise Undecided('Lexer.lex: expected one scanning loop guarded by `<pos> < len(...)`')
    pos_ = wl[0].test.left if isinstance(wl[0].test.left, ast.Name) else wl[0].test.comparators[0]
    if not isinstance(pos_, ast.Name):
        raise Undecided('Lexer.lex: expected one scanning loop guarded by `<pos> < len(...)`')
    sl = [f for f in wl[0].body if isinstance(f, ast.For) and norm(f.iter) == 'self.token_specification']
    sel = None
    if not sl:
        # the table loop extracted into a helper returning (token id, match) or None
        got = _table_helper(mod, wl[0])
        if got is None:
            raise Undecided('Lexer.lex: regex table loop with single-character fallback not recognised')
        sel, tid, mo0 = got
        sl = [None]  # type: ignore[list-item]
        mo = [mo0]
    else:
        if len(sl) != 1 or not sl[0].orelse or not (isinstance(sl[0].target, ast.Tuple) and len(sl[0].target.elts) == 2):
            raise Undecided('Lexer.lex: regex table loop with single-character fallback not recognised')
        tid = norm(sl[0].target.elts[0])
        mo = [norm(st.targets[0]) for st in ast.walk(sl[0]) if isinstance(st, ast.Assign) and isinstance(st.value, ast.Call)
              and call_method(st.value) == 'match' and isinstance(st.targets[0], ast.Name)]
        mo += [st.target.id for st in ast.walk(sl[0]) if isinstance(st, ast.NamedExpr) and isinstance(st.value, ast.Call) and call_method(st.value) == 'match']
    ys = [y.value for y in ast.walk(lex) if isinstance(y, ast.Yield) and isinstance(y.value, ast.Call) and norm(y.value.func) == 'Token']
    if len(ys) != 1 or len(mo) != 1:
        raise Undecided('Lexer.lex: the single `yield Token(...)` / the regex match assignment was not recognised')
    fields = [st.target.id for st in mod.cls('Token').body if isinstance(st, ast.AnnAssign) and isinstance(st.target, ast.Name)]
    given: T.Dict[str, ast.AST] = dict(zip(fields, ys[0].args))
    given.update({k.arg: k.value for k in ys[0].keywords if k.arg})
    out: T.Dict[str, T.Any] = {'lex': lex, 'while': wl[0], 'spec_loop': sl[0], 'sel': sel, 'tid': tid, 'mo': mo[0], 'loc': pos_.id}
    span = resolve_locals(lex, given.get('bytespan'))
    out['start'] = None
    if isinstance(span, ast.Tuple) and len(span.elts) == 2:
        st0 = resolve_locals(lex, span.elts[0])
        if isinstance(span.elts[0], ast.Name):
            out['start'] = span.elts[0].id       # the local that remembers where the token started
    for role in ('tid', 'value', 'lineno', 'line_start'):
        e = resolve_locals(lex, given.get(role))
        if not isinstance(e, ast.Name):
            raise Undecided(f'Lexer.lex: Token field `{role}` is not fed from a plain variable')
        if role == 'tid' and e.id != tid:
            raise Undecided('Lexer.lex: the yielded token id is not the loop variable of the regex table loop')
        out[role] = e.id
    return out


class _LexPath:
    def __init__(self, p: Path, tid: str, mode: str):
        self.p, self.tid, self.mode = p, tid, mode


def _feasible(ctx: RuleCtx, mod: T.Any, p: Path, tid: str, mode: str, spec_loop: ast.For, R: T.Dict[str, T.Any]) -> T.Optional[T.Dict[str, T.Any]]:
    """Walk one path of the scanning loop body for a token that starts as `tid`; None when the path contradicts it."""
    cur: T.Optional[str] = tid if mode == 'regex' else None
    took_loop = False
    info: T.Dict[str, T.Any] = {'assigned': [], 'guards': [], 'stmts': []}
    for ev in p.events:
        if ev.kind == 'iter' and spec_loop is not None and ev.node is spec_loop:
            if ev.val == 'iter':
                took_loop = True
            continue
        if ev.kind == 'cond':
            names = names_in(ev.node)
            if R.get('sel') and names == {R['sel']}:
                t = norm(ev.node)
                is_regex = ev.val if t in (R['sel'], f"{R['sel']} is not None") else (not ev.val) if t in (f"{R['sel']} is None",) else None
                if is_regex is None:
                    raise Undecided(f'Lexer.lex: test `{t}` on the table-lookup result')
                if is_regex != (mode == 'regex'):
                    return None
                took_loop = True
                continue
            if norm(ev.node) == R['mo'] or (isinstance(ev.node, ast.NamedExpr) and ev.node.target.id == R['mo']):
                if mode == 'regex' and not ev.val:
                    return None
                if mode == 'single' and ev.val:
                    return None
                continue
            if R['tid'] in names and cur is not None:
                v = fold_cond(ctx.repo, mod, ev.node, {R['tid']: cur})    # other names may be module-level constant tables
                if v is None:
                    info.setdefault('open', []).append(ev.node)           # a test on the token id that cannot be decided
                elif v != ev.val:
                    return None
                continue
            if R['tid'] in names and cur is None:
                continue
            info['guards'].append((ev.node, ev.val))
            continue
        if ev.kind != 'stmt':
            continue
        st = ev.node
        info['stmts'].append(st)
        if isinstance(st, ast.Assign) and isinstance(st.targets[0], (ast.Tuple, ast.List)):
            for t in st.targets[0].elts:
                if isinstance(t, ast.Name) and t.id in (R['lineno'], R['line_start']):
                    info['assigned'].append(('lineno' if t.id == R['lineno'] else 'line_start', st))
        if isinstance(st, (ast.Assign, ast.AugAssign)):
            tg = st.targets[0] if isinstance(st, ast.Assign) else st.target
            if isinstance(tg, ast.Name):
                if tg.id == R['tid']:
                    if isinstance(st.value, ast.Constant):
                        cur = st.value.value
                    elif isinstance(st.value, ast.Subscript) and norm(st.value.value) == 'self.single_char_tokens' and mode == 'single':
                        cur = tid
                    else:
                        cur = None
                if tg.id in (R['lineno'], R['line_start']):
                    info['assigned'].append(('lineno' if tg.id == R['lineno'] else 'line_start', st))
    if mode == 'regex' and not took_loop:
        return None
    if mode == 'single' and any(isinstance(e.node, ast.Break) for e in p.events if e.kind == 'stmt'):
        return None
    return info


def _newline_guard(info: T.Dict[str, T.Any]) -> bool:
    nl_names: T.Set[str] = set()
    for st in info['stmts']:
        if isinstance(st, ast.Assign) and isinstance(st.targets[0], ast.Name) and "'\\n'" in norm(st.value):
            nl_names.add(st.targets[0].id)
    for node, val in info['guards']:
        if "'\\n'" in norm(node) or names_in(node) & nl_names:
            return True
    return False


def strip_table(ctx: RuleCtx) -> T.Dict[str, T.Tuple[str, str]]:
    """For every token id of the regex table: the text the lexer removes from the start and the end of the matched text before it
    becomes Token.value - the number of characters from the `value = value[a:-b]` statements on the feasible paths of that id,
    the characters themselves from the literal prefix/suffix of the token regex.  Ids without such a statement map to ('', '')."""
    import re._constants as sc
    mod = ctx.repo.module(MPARSER)
    spec, single, _ = lexer_tables(ctx)
    R = lex_roles(mod)
    paths = enumerate_paths(R['while'].body, unroll=1)
    out: T.Dict[str, T.Tuple[str, str]] = {}
    for tid, regs in spec:
        cuts: T.Set[T.Tuple[int, int]] = set()
        for p in paths:
            info = _feasible(ctx, mod, p, tid, 'regex', R['spec_loop'], R)
            if info is None:
                continue
            lo = hi = 0
            cenv: T.Dict[str, T.Any] = {R['tid']: tid}
            for st in info['stmts']:
                if isinstance(st, ast.Assign) and isinstance(st.targets[0], ast.Name) and st.targets[0].id not in (R['value'], R['tid']):
                    try:
                        cv = fold_expr(ctx.repo, mod, st.value, env=cenv)      # a named constant of this token id (`quote_start = 2 if ... else 1`)
                        if isinstance(cv, (int, str)):
                            cenv[st.targets[0].id] = cv
                    except Undecided:
                        cenv.pop(st.targets[0].id, None)
                if isinstance(st, (ast.Assign, ast.AugAssign)) and norm(st.targets[0] if isinstance(st, ast.Assign) else st.target) == R['value']:
                    v = st.value
                    if isinstance(st, ast.Assign) and isinstance(v, ast.Call) and call_method(v) == 'group' and not v.args:
                        continue    # value = <match>.group(): the matched text itself
                    if not (isinstance(st, ast.Assign) and isinstance(v, ast.Subscript) and norm(v.value) == R['value'] and isinstance(v.slice, ast.Slice)
                            and v.slice.step is None):
                        raise Undecided(f'Lexer.lex: token `{tid}`: `{short(st)}` changes the token text in a way that is not a slice')
                    a = fold_expr(ctx.repo, mod, v.slice.lower, env=cenv) if v.slice.lower is not None else 0
                    b = fold_expr(ctx.repo, mod, v.slice.upper, env=cenv) if v.slice.upper is not None else 0
                    if not (isinstance(a, int) and isinstance(b, int) and a >= 0 and b <= 0):
                        raise Undecided(f'Lexer.lex: token `{tid}`: slice bounds of `{short(st)}`')
                    lo, hi = lo + a, hi - b
            cuts.add((lo, hi))
        if len(cuts) != 1:
            raise Undecided(f'Lexer.lex: token `{tid}`: stripped lengths differ between paths or no path found: {sorted(cuts)}')
        lo, hi = cuts.pop()
        pres: T.Set[str] = set()
        posts: T.Set[str] = set()
        for r in regs:
            items = list(rx.parse(r.pattern, r.flags))
            pre = rx.literal_prefix(items)
            post = ''
            for op, av in reversed(items):
                if op is sc.LITERAL:
                    post = chr(av) + post
                else:
                    break
            if len(pre) < lo or len(post) < hi:
                raise Undecided(f'Lexer.lex: token `{tid}`: {lo}/{hi} characters are stripped but the regex fixes only {pre!r}...{post!r}')
            pres.add(pre[:lo])
            posts.add(post[len(post) - hi:] if hi else '')
        if len(pres) != 1 or len(posts) != 1:
            raise Undecided(f'Lexer.lex: token `{tid}`: alternative regexes with different delimiters')
        out[tid] = (pres.pop(), posts.pop())
    return out


def check_lines(ctx: RuleCtx) -> None:
    mod = ctx.repo.module(MPARSER)
    spec, single, kws = lexer_tables(ctx)
    ids = [t for t, _ in spec] + list(single.values()) + sorted(kws)
    ctx.require(all(isinstance(t, str) and t for t in ids), f'all {len(ids)} token ids in the lexer tables are non-empty strings', mod, 'Lexer.__init__',
                'token ids', 'an empty token id makes accept_any() report "nothing consumed" after consuming')
    R = lex_roles(mod)
    lex, body, spec_loops = R['lex'], R['while'].body, [R['spec_loop']]
    paths = enumerate_paths(body, unroll=1)
    cases: T.List[T.Tuple[str, str, T.Optional[Regex]]] = []
    for tid, rs in spec:
        for r in rs:
            if rx.matches_char(r.pattern, '\n', r.flags):
                cases.append((tid, 'regex', r))
                break
    for ch, tid in single.items():
        if ch == '\n':
            cases.append((tid, 'single', None))
    ctx.floor('token kinds that can contain a newline', len(cases), 6)
    not_nl = [tid for tid, rs in spec if all(not rx.matches_char(r.pattern, '\n', r.flags) for r in rs)]
    ctx.ok(f'token regexes that cannot match a newline: {not_nl}')
    groups: T.Dict[str, T.List[str]] = {}
    details: T.Dict[str, T.Tuple[ast.AST, str]] = {}
    for tid, mode, r in cases:
        infos = [i for i in (_feasible(ctx, mod, p, tid, mode, spec_loops[0], R) for p in paths) if i is not None]
        if not infos:
            raise Undecided(f'Lexer.lex: no path for token id {tid}')
        both = [i for i in infos if {n for n, _ in i['assigned']} == {'lineno', 'line_start'}]
        one = [i for i in infos if len({n for n, _ in i['assigned']}) == 1]
        none_unguarded = [i for i in infos if not i['assigned'] and not _newline_guard(i)]
        arm = _arm_test(lex, tid, ctx, mod, R) if mode == 'regex' else f"tid == '{tid}' (single character)"
        key = norm(arm) if not isinstance(arm, str) else arm
        doubtful = [i for i in (one + none_unguarded) if i.get('open')]
        if doubtful:
            raise Undecided(f'Lexer.lex: token `{tid}`: the condition `{short(doubtful[0]["open"][0])}` on the token id could not be decided; '
                            'the paths it selects are not judged')
        if not both or one or none_unguarded:
            why = ('only one of lineno/line_start is updated on some path' if one else
                   'neither lineno nor line_start is updated although the token text can contain a newline' if not both else
                   'a path without newline guard updates neither lineno nor line_start')
            groups.setdefault(key, []).append(tid)
            details[key] = (arm if not isinstance(arm, str) else lex, why)
            continue
        ctx.ok(f'token `{tid}` ({mode}): {len(both)} of {len(infos)} paths update lineno and line_start, the others are newline-guarded')
        seen_f: T.Set[T.Tuple[int, ...]] = set()
        for i in both:
            k = tuple(id(st) for _, st in i['assigned'])
            if k not in seen_f:
                seen_f.add(k)
                _check_formula(ctx, mod, lex, tid, mode, r, i, R)
    for key, tids in groups.items():
        node, why = details[key]
        ctx.violation(mod, 'Lexer.lex', key, f'token kind(s) {tids} can match a newline (regex language) but in their branch {why}: '
                      f'every later token gets a wrong line and column', node if isinstance(node, ast.AST) else None)


def _arm_test(lex: ast.AST, tid: str, ctx: RuleCtx, mod: T.Any, R: T.Dict[str, T.Any]) -> T.Any:
    for n in ast.walk(lex):
        if isinstance(n, ast.If) and names_in(n.test) == {R['tid']}:
            if fold_cond(ctx.repo, mod, n.test, {R['tid']: tid}):
                return n.test
    return f'(no branch for {tid})'


def _check_formula(ctx: RuleCtx, mod: T.Any, lex: ast.AST, tid: str, mode: str, r: T.Optional[Regex], info: T.Dict[str, T.Any], R: T.Dict[str, T.Any]) -> None:
    """lineno must grow by the number of newlines in the token, line_start must become the offset just after the last one."""
    stmts = info['stmts']
    ln = [st for n, st in info['assigned'] if n == 'lineno']
    ls = [st for n, st in info['assigned'] if n == 'line_start']
    if len(ln) != 1 or len(ls) != 1 or ln[0] is ls[0]:
        raise Undecided(f'Lexer.lex: several (or a combined) update of lineno/line_start for {tid}')
    ln, ls = ln[0], ls[0]
    # Walk the statements of the path in order: remember what each local was bound to (so named intermediate results are read
    # through), and how many characters were stripped from the front / the back of the token text so far.
    import copy
    V, tidv = R['value'], R['tid']
    env: T.Dict[str, ast.AST] = {}
    front = back = 0
    seen: T.Dict[int, T.Tuple[ast.AST, int, int]] = {}

    def subst(e: ast.AST) -> ast.AST:
        class S(ast.NodeTransformer):
            def visit_Name(self, n: ast.Name) -> ast.AST:
                if isinstance(n.ctx, ast.Load) and n.id in env:
                    return copy.deepcopy(env[n.id])
                return n
        e2 = S().visit(copy.deepcopy(e))
        try:
            v = fold_expr(ctx.repo, mod, e2, env={tidv: tid})
            if isinstance(v, int) and not isinstance(v, bool):
                return ast.Constant(value=v)
        except Undecided:
            pass
        return e2
    roles = {R['lineno'], R['line_start'], R['loc'], V, tidv}
    for st in stmts:
        if st is ln or st is ls:
            seen[id(st)] = (subst(st.value), front, back)
            continue
        if isinstance(st, ast.Assign) and norm(st.targets[0]) == V:
            v = st.value
            if isinstance(v, ast.Subscript) and norm(v.value) == V and isinstance(v.slice, ast.Slice) and v.slice.step is None:
                lo = subst(v.slice.lower) if v.slice.lower is not None else ast.Constant(value=0)
                hi = subst(v.slice.upper) if v.slice.upper is not None else ast.Constant(value=0)
                if not (isinstance(lo, ast.Constant) and isinstance(hi, (ast.Constant, ast.UnaryOp))):
                    raise Undecided(f'Lexer.lex: token `{tid}`: slice bounds of `{short(st)}` are not constants for this token id')
                front += lo.value
                back += -(fold_expr(ctx.repo, mod, hi))
            env = {k: e for k, e in env.items() if V not in names_in(e)}
        elif isinstance(st, ast.Assign) and isinstance(st.targets[0], ast.Name) and st.targets[0].id not in roles:
            env[st.targets[0].id] = subst(st.value)
    if id(ln) not in seen or id(ls) not in seen:
        raise Undecided(f'Lexer.lex: token `{tid}`: line bookkeeping statements not on the path')
    lnv, _, _ = seen[id(ln)]
    lsv, front_ls, back_ls = seen[id(ls)]
    inc = _increment(ast.AugAssign(target=ln.target, op=ln.op, value=lnv) if isinstance(ln, ast.AugAssign) else ast.Assign(targets=ln.targets, value=lnv), R['lineno'])  # type: ignore[attr-defined]
    if inc is None or not isinstance(ls, ast.Assign):
        raise Undecided(f'Lexer.lex: token `{tid}`: `{short(ln)}` / `{short(ls)}` are not an increment of lineno and an assignment of line_start')
    start = linear(lsv)
    if inc == ({}, 1) and start == ({R['loc']: 1}, 0):
        ends = mode == 'single' or (r is not None and r.pattern.endswith('\\n') and rx.intersects(r.pattern, TWO_NEWLINES, r.flags) is None)
        ctx.require(bool(ends), f'token `{tid}`: exactly one newline, at its end -> lineno += 1, line_start = loc', mod, 'Lexer.lex', ls,
                    f'token `{tid}`: `{short(ln)}; {short(ls)}` is only right for a token that ends with its single newline', ls)
        return
    SPL = f"{V}.split('\\n')"
    incs = [({f'len({SPL})': 1}, -1), ({f"{V}.count('\\n')": 1}, 0)]
    starts = [({R['loc']: 1, f'len({SPL}[-1])': -1}, -back_ls)]
    if R.get('start'):
        starts.append(({R['start']: 1, f"{V}.rfind('\\n')": 1}, 1 + front_ls))
    if set(inc[0]) not in [set(i_[0]) for i_ in incs] or set(start[0]) not in [set(s_[0]) for s_ in starts]:
        raise Undecided(f'Lexer.lex: token `{tid}`: `{short(ln)}` / `{short(ls)}` compute the line bookkeeping from quantities that are not understood '
                        f'(known forms: newline count of the text; offset behind its last newline from the end or from the start of the token)')
    ok = inc in incs and start in starts
    ctx.require(ok, f'token `{tid}`: lineno += newlines in the text, line_start = offset just behind its last newline', mod, 'Lexer.lex', ls,
                f'token `{tid}`: the updates `{short(ln)}` / `{short(ls)}` do not place line_start just after the last newline of the token '
                f'({front_ls} opening and {back_ls} closing characters were stripped from the text at that point: the constant is wrong)', ls)


def linear(e: ast.AST) -> T.Tuple[T.Dict[str, int], int]:
    """a + b - 3 -> ({'a': 1, 'b': 1}, -3): sums/differences of opaque terms and integer constants."""
    terms: T.Dict[str, int] = {}
    const = [0]

    def rec(x: ast.AST, sign: int) -> None:
        if isinstance(x, ast.BinOp) and isinstance(x.op, (ast.Add, ast.Sub)):
            rec(x.left, sign)
            rec(x.right, sign if isinstance(x.op, ast.Add) else -sign)
        elif isinstance(x, ast.UnaryOp) and isinstance(x.op, ast.USub):
            rec(x.operand, -sign)
        elif isinstance(x, ast.Constant) and isinstance(x.value, int) and not isinstance(x.value, bool):
            const[0] += sign * x.value
        else:
            k = norm(x)
            terms[k] = terms.get(k, 0) + sign
            if terms[k] == 0:
                del terms[k]
    rec(e, 1)
    return terms, const[0]


def _increment(st: ast.AST, name: str) -> T.Optional[T.Tuple[T.Dict[str, int], int]]:
    """The amount added to `name` by `name += e` / `name = name + e`."""
    if isinstance(st, ast.AugAssign) and isinstance(st.op, ast.Add):
        return linear(st.value)
    if isinstance(st, ast.Assign):
        t, c = linear(st.value)
        if t.get(name) == 1:
            t = dict(t)
            del t[name]
            return t, c
    return None


def resolve_locals(fn: ast.AST, e: T.Optional[ast.AST], depth: int = 0) -> T.Optional[ast.AST]:
    """Replace names that have exactly one plain definition in `fn` (and are not parameters) by that definition."""
    if e is None or depth > 4:
        return e
    params = {a.arg for a in fn.args.posonlyargs + fn.args.args + fn.args.kwonlyargs}  # type: ignore[attr-defined]
    defs: T.Dict[str, T.List[T.Optional[ast.AST]]] = {}
    for st in walk_no_nested(fn):
        if isinstance(st, ast.Assign):
            for t in st.targets:
                for n in ast.walk(t):
                    if isinstance(n, ast.Name):
                        defs.setdefault(n.id, []).append(st.value if isinstance(t, ast.Name) else None)
        elif isinstance(st, (ast.AugAssign, ast.AnnAssign, ast.For, ast.NamedExpr, ast.comprehension)):
            for n in ast.walk(st.target):
                if isinstance(n, ast.Name):
                    defs.setdefault(n.id, []).extend([None, None])

    class Sub(ast.NodeTransformer):
        def visit_Name(self, n: ast.Name) -> ast.AST:
            d = defs.get(n.id, [])
            if isinstance(n.ctx, ast.Load) and n.id not in params and len(d) == 1 and d[0] is not None:
                return resolve_locals(fn, d[0], depth + 1) or n
            return n
    import copy
    return Sub().visit(copy.deepcopy(e))


# -- R6 ------------------------------------------------------------------------------------------------
SPLICED = {'FunctionNode': 'full', 'ArrayNode': 'full', 'DictNode': 'full', 'ParenthesizedNode': 'full', 'MethodNode': 'end'}


def check_extents(ctx: RuleCtx, spliced: T.Optional[T.Dict[str, str]] = None) -> None:
    model = model_for(ctx.repo)
    mod = model.mod
    spec, single, _ = lexer_tables(ctx)
    ctx.require(all(len(k) == 1 for k in single), 'every single-character token has length 1 (the `+1` of the extents)', mod, 'Lexer.__init__',
                'single_char_tokens', 'a key of single_char_tokens is not one character long')
    # a SymbolNode's end equals its start: the root constructor defaults end_* to the start
    rfn = model.find(model.root, '__init__')[1]  # type: ignore[index]
    dflt = {}
    for st in walk_no_nested(rfn):
        if isinstance(st, ast.Assign) and attr_chain(st.targets[0]) in ('self.end_lineno', 'self.end_colno') and isinstance(st.value, ast.IfExp):
            dflt[attr_chain(st.targets[0])] = norm(st.value.orelse) if norm(st.value.test).endswith('is not None') else norm(st.value.body)
    sym_end_is_start = dflt == {'self.end_lineno': 'lineno', 'self.end_colno': 'colno'}
    sym_init = model.find('SymbolNode', '__init__')
    passes_end = any(isinstance(c, ast.Call) and (len(c.args) > 3 or c.keywords) for c in walk_no_nested(sym_init[1]) if isinstance(c, ast.Call)
                     and isinstance(c.func, ast.Attribute) and c.func.attr == '__init__') if sym_init else True
    if set(dflt) != {'self.end_lineno', 'self.end_colno'}:
        raise Undecided(f'{model.root}.__init__: how end_lineno/end_colno default is not understood')
    ctx.require(sym_end_is_start and not passes_end, 'SymbolNode: end position defaults to the start position', mod, f'{model.root}.__init__', rfn,
                'the end position of a symbol no longer defaults to its start: `x.end_colno + 1` and `x.colno + 1` differ')
    for cls, mode in (spliced or SPLICED).items():
        r = model.find(cls, '__init__')
        if r is None or r[0].name != cls:
            raise Undecided(f'{cls}: own __init__ expected')
        fn = r[1]
        fields = model.node_fields(cls)
        first_f, last_f = fields[0][0], fields[-1][0]
        stored = {}
        for st in walk_no_nested(fn):
            if isinstance(st, ast.Assign) and (attr_chain(st.targets[0]) or '').startswith('self.') and isinstance(st.value, ast.Name):
                stored[attr_chain(st.targets[0])[5:]] = st.value.id  # type: ignore[index]
        sup = [c for c in walk_no_nested(fn) if isinstance(c, ast.Call) and isinstance(c.func, ast.Attribute) and c.func.attr == '__init__']
        if len(sup) != 1 or first_f not in stored or last_f not in stored:
            raise Undecided(f'{cls}.__init__: base constructor call / field stores not recognised')
        c = sup[0]
        args = list(c.args)
        if isinstance(c.func.value, ast.Name):
            args = args[1:]
        kw = {k.arg: k.value for k in c.keywords}
        pf, pl = stored[first_f], stored[last_f]
        args = [resolve_locals(fn, a) for a in args]
        kw = {k: resolve_locals(fn, v) for k, v in kw.items()}
        others = [p_ for p_ in params_of(fn)[1:] if p_ not in (pf, pl)]

        def judge(e: T.Optional[ast.AST], good: T.List[T.Tuple[T.Dict[str, int], int]], owner: str, what: str, msg: str) -> None:
            """ok when the linear form of `e` is one of `good`; violation only on positive evidence (the right operand with another
            constant, or the position of a different constructor parameter); anything else is not understood."""
            if e is None:
                raise Undecided(f'{cls}.__init__: the {what} is not passed to the base constructor')
            lf = linear(e)
            if lf in good:
                ctx.ok(f'{cls}: {what} is `{short(e)}`')
                return
            bases = {t.split('.')[0] for t in lf[0]}
            if set(lf[0]) in [set(g[0]) for g in good] or (bases and bases <= set(others + ([pl] if owner == pf else [pf]))):
                ctx.violation(mod, f'{cls}.__init__', f'{what} of {cls}', msg.format(got=short(e)), c)
                return
            raise Undecided(f'{cls}.__init__: the {what} `{short(e)}` is not a position of a constructor parameter plus a constant')
        if mode == 'full':
            if len(args) < 2:
                raise Undecided(f'{cls}.__init__: start position not passed positionally')
            judge(args[0], [({f'{pf}.lineno': 1}, 0)], pf, 'start line', f'{cls} starts on line `{{got}}`; its textually first field is `{first_f}` (parameter {pf})')
            judge(args[1], [({f'{pf}.colno': 1}, 0)], pf, 'start column', f'{cls} starts at column `{{got}}`; its textually first field is `{first_f}` (parameter {pf})')
        el, ec = kw.get('end_lineno'), kw.get('end_colno')
        if el is None and len(args) > 3:
            el = args[3]
        if ec is None and len(args) > 4:
            ec = args[4]
        judge(el, [({f'{pl}.lineno': 1}, 0), ({f'{pl}.end_lineno': 1}, 0)], pl, 'end line', f'{cls} end line is `{{got}}`; the closing token is `{last_f}` (parameter {pl})')
        judge(ec, [({f'{pl}.colno': 1}, 1), ({f'{pl}.end_colno': 1}, 1)], pl, 'end column',
              f'{cls} end column is `{{got}}`; it must be the column of the closing token `{last_f}` plus its length 1')
