"""E4 (intraprocedural part): may-flow by origin sets.

`Flow(fn)` computes, flow-insensitively, for every local name the set of
*origins* (leaves) whose value may reach it: parameters, attribute chains,
calls (`call:os.path.join`), constants.  Transfer rules are those of DESIGN B.2:
assignment copies, containers/operators/f-strings/calls union their parts,
mutators (`append extend insert add update += setdefault`) feed the receiver,
loop and comprehension targets inherit from the iterable.  A call to a name in
`cut` is a sanitiser: its result has the single origin `san:<name>`.

Rules use it in both polarities (must-flow obligations through these rules only,
must-not-flow prohibitions where unknown callees count as flowing).
"""
from __future__ import annotations

import ast
import typing as T

from .core import attr_chain, call_name, walk_no_nested

MUTATORS = {'append', 'extend', 'insert', 'add', 'update', 'setdefault', 'appendleft', 'extendleft', 'extend_direct', 'append_direct', 'prepend'}


class Flow:
    def __init__(self, fn: T.Union[ast.FunctionDef, ast.AsyncFunctionDef], cut: T.Iterable[str] = (), nested: bool = True):
        self.fn = fn
        self.cut = set(cut)
        self.params = [a.arg for a in fn.args.posonlyargs + fn.args.args + fn.args.kwonlyargs]
        if fn.args.vararg:
            self.params.append(fn.args.vararg.arg)
        if fn.args.kwarg:
            self.params.append(fn.args.kwarg.arg)
        self.defs: T.Dict[str, T.List[ast.AST]] = {}
        self.attr_defs: T.Dict[str, T.List[ast.AST]] = {}
        it = ast.walk(fn) if nested else walk_no_nested(fn)
        for n in it:
            self._collect(n)
        self._memo: T.Dict[str, T.Set[str]] = {}

    def _bind(self, target: ast.AST, value: ast.AST) -> None:
        if isinstance(target, ast.Name):
            self.defs.setdefault(target.id, []).append(value)
        elif isinstance(target, (ast.Tuple, ast.List)):
            if isinstance(value, (ast.Tuple, ast.List)) and len(value.elts) == len(target.elts):
                for t, v in zip(target.elts, value.elts):
                    self._bind(t, v)
            else:
                for t in target.elts:
                    self._bind(t, value)
        elif isinstance(target, ast.Starred):
            self._bind(target.value, value)
        elif isinstance(target, ast.Subscript):
            self._bind(target.value, value)
        elif isinstance(target, ast.Attribute):
            c = attr_chain(target)
            if c:
                self.attr_defs.setdefault(c, []).append(value)

    def _collect(self, n: ast.AST) -> None:
        if isinstance(n, ast.Assign):
            for t in n.targets:
                self._bind(t, n.value)
        elif isinstance(n, ast.AnnAssign) and n.value is not None:
            self._bind(n.target, n.value)
        elif isinstance(n, ast.AugAssign):
            self._bind(n.target, n.value)
        elif isinstance(n, (ast.For, ast.AsyncFor)):
            self._bind(n.target, n.iter)
        elif isinstance(n, ast.comprehension):
            self._bind(n.target, n.iter)
        elif isinstance(n, (ast.With, ast.AsyncWith)):
            for i in n.items:
                if i.optional_vars is not None:
                    self._bind(i.optional_vars, i.context_expr)
        elif isinstance(n, ast.NamedExpr):
            self._bind(n.target, n.value)
        elif isinstance(n, ast.Call) and isinstance(n.func, ast.Attribute) and n.func.attr in MUTATORS:
            for a in list(n.args) + [k.value for k in n.keywords]:
                self._bind(n.func.value, a)

    # ------------------------------------------------------------------
    def origins(self, e: ast.AST) -> T.Set[str]:
        out: T.Set[str] = set()
        self._leaves(e, out, set())
        return out

    def _name(self, name: str, out: T.Set[str], busy: T.Set[str]) -> None:
        if name in self._memo:
            out |= self._memo[name]
            return
        if name in busy:
            return
        busy = busy | {name}
        acc: T.Set[str] = set()
        if name in self.params:
            acc.add(f'param:{name}')
        if name not in self.defs and name not in self.params:
            acc.add(f'name:{name}')
        for v in self.defs.get(name, []):
            self._leaves(v, acc, busy)
        if len(busy) == 1:
            self._memo[name] = acc
        out |= acc

    def _leaves(self, e: ast.AST, out: T.Set[str], busy: T.Set[str]) -> None:
        if isinstance(e, ast.Name):
            self._name(e.id, out, busy)
        elif isinstance(e, ast.Attribute):
            c = attr_chain(e)
            if c is not None:
                out.add(f'attr:{c}')
                base = c.split('.')[0]
                if base in self.defs or base in self.params:
                    # attribute of a local: inherits the local's origins too
                    self._name(base, out, busy)
                for v in self.attr_defs.get(c, []):
                    self._leaves(v, out, busy)
            else:
                self._leaves(e.value, out, busy)
        elif isinstance(e, ast.Call):
            cn = call_name(e) or '<dynamic>'
            if cn in self.cut or cn.split('.')[-1] in self.cut:
                out.add(f'san:{cn.split(".")[-1]}')
                return
            out.add(f'call:{cn}')
            if isinstance(e.func, ast.Attribute):
                self._leaves(e.func.value, out, busy)
            for a in e.args:
                self._leaves(a.value if isinstance(a, ast.Starred) else a, out, busy)
            for k in e.keywords:
                self._leaves(k.value, out, busy)
        elif isinstance(e, ast.Constant):
            out.add('const')
        elif isinstance(e, ast.Lambda):
            self._leaves(e.body, out, busy)
        elif isinstance(e, (ast.ListComp, ast.SetComp, ast.GeneratorExp)):
            self._leaves(e.elt, out, busy)
            for g in e.generators:
                self._leaves(g.iter, out, busy)
        elif isinstance(e, ast.DictComp):
            self._leaves(e.key, out, busy)
            self._leaves(e.value, out, busy)
            for g in e.generators:
                self._leaves(g.iter, out, busy)
        else:
            for ch in ast.iter_child_nodes(e):
                if isinstance(ch, (ast.expr, ast.keyword, ast.comprehension, ast.FormattedValue)):
                    self._leaves(ch, out, busy)

    def reaches(self, e: ast.AST, pred: T.Callable[[str], bool]) -> bool:
        return any(pred(o) for o in self.origins(e))
