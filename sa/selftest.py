"""E8: mutation matrix for the *checker*.

For every property a list of variants of repository files: `broken` variants
(one rule instance broken by a realistic edit; the check must report a finding
of the expected rule) and `twin` variants (behaviour-preserving refactorings;
the check must stay silent and decided).  Variants are in-memory overlays of one
or more files (nothing is written to disk); each is compiled first so that it
"still builds".  A variant whose anchor text is not present in the current tree
is skipped and counted.  Findings that the *unmodified* tree already has (known
findings, or defects not yet triaged) are not attributed to a variant: a variant
is judged on the findings it adds.

Firings here concern scratch variants, never /repo: they are printed as
SELFTEST lines, never as VIOLATION.
"""
from __future__ import annotations

import concurrent.futures
import importlib
import os
import typing as T


class Variant(T.NamedTuple):
    vid: str
    kind: str                 # 'broken' | 'twin'
    edits: T.List[T.Tuple[str, str, str]]   # (file, old text, new text) - old must occur exactly once
    expect: str = ''          # rule id prefix expected to fire (broken)
    note: str = ''


def V(vid: str, kind: str, file: str, old: str, new: str, expect: str = '', note: str = '') -> Variant:
    return Variant(vid, kind, [(file, old, new)], expect, note)


def _apply(repo_root: str, v: Variant) -> T.Optional[T.Dict[str, str]]:
    overlay: T.Dict[str, str] = {}
    for rel, old, new in v.edits:
        if rel in overlay:
            src = overlay[rel]
        else:
            try:
                with open(os.path.join(repo_root, rel), encoding='utf-8') as f:
                    src = f.read()
            except OSError:
                return None
        if src.count(old) != 1:
            return None
        src = src.replace(old, new)
        try:
            compile(src, rel, 'exec', dont_inherit=True)
        except SyntaxError as e:
            raise RuntimeError(f'variant {v.vid} does not compile: {e}')
        overlay[rel] = src
    return overlay


def _baseline(prop: str, repo_root: str) -> T.List[T.Tuple[str, str, str, str]]:
    from .main import run_check
    chk = run_check(prop, repo_root, 'quick', 0, None, None)
    return [f.key() for f in chk.findings()]


def _run_one(args: T.Tuple[str, str, Variant, T.List[T.Tuple[str, str, str, str]]]) -> T.Dict[str, T.Any]:
    prop, repo_root, v, baseline = args
    from .main import run_check
    from .report import load_known
    try:
        overlay = _apply(repo_root, v)
    except RuntimeError as e:
        return {'vid': v.vid, 'kind': v.kind, 'status': 'invalid', 'detail': str(e)}
    if overlay is None:
        return {'vid': v.vid, 'kind': v.kind, 'status': 'skipped', 'detail': 'anchor text not present in the current tree'}
    chk = run_check(prop, repo_root, 'quick', 0, None, overlay)
    known, new = chk.split_known(load_known())
    # findings the unmodified tree already has (known or not) are not attributed to the variant
    new = [f for f in new if f.key() not in set(baseline)]
    fired = sorted({f.rule for f in new})
    res: T.Dict[str, T.Any] = {'vid': v.vid, 'kind': v.kind, 'fired': fired, 'errors': chk.errors[:3], 'expect': v.expect,
                               'messages': [f'{f.rule} {f.module}:{f.line} {f.function}: {f.message}'[:240] for f in new[:3]]}
    if v.kind == 'broken':
        ok = any(r.startswith(v.expect) for r in fired) if v.expect else bool(fired)
        res['status'] = 'fired' if ok else ('undecided' if chk.errors and not fired else 'MISSED')
    else:
        res['status'] = 'silent' if not fired and not chk.errors else ('FALSE-ALARM' if fired else 'UNDECIDED')
    return res


def load_variants(prop: str) -> T.List[Variant]:
    try:
        m = importlib.import_module(f'sa.mutants.{prop.lower()}')
    except ModuleNotFoundError:
        return []
    return list(m.VARIANTS)


def run_matrix(prop: str, repo_root: str, jobs: int = 16) -> T.Dict[str, T.Any]:
    variants = load_variants(prop)
    lines: T.List[str] = []
    results: T.List[T.Dict[str, T.Any]] = []
    if variants:
        with concurrent.futures.ProcessPoolExecutor(max_workers=min(jobs, len(variants))) as ex:
            base = _baseline(prop, repo_root)
            results = list(ex.map(_run_one, [(prop, repo_root, v, base) for v in variants]))
    failures: T.List[str] = []
    for r in results:
        lines.append(f'SELFTEST property={prop} variant={r["vid"]} kind={r["kind"]} -> {r["status"]}'
                     + (f' rules={",".join(r.get("fired", []))}' if r.get('fired') else '')
                     + (f' ({r.get("detail")})' if r.get('detail') else ''))
        if r['status'] in ('MISSED', 'FALSE-ALARM', 'UNDECIDED', 'invalid', 'undecided'):
            failures.append(f'{r["vid"]}: {r["status"]} {r.get("errors") or r.get("detail") or r.get("messages")}')
    summary = {
        'variants': len(results),
        'broken_fired': sum(1 for r in results if r['status'] == 'fired'),
        'twins_silent': sum(1 for r in results if r['status'] == 'silent'),
        'skipped': sum(1 for r in results if r['status'] == 'skipped'),
        'failures': failures,
        'results': results,
        'lines': lines,
    }
    return summary


def main() -> int:
    import sys
    props = sys.argv[1:] or [f'C{i:02d}' for i in range(1, 21)]
    rc = 0
    for p in props:
        s = run_matrix(p, os.environ.get('VERIF_REPO', '/repo'))
        for l in s['lines']:
            print(l)
        print(f'{p}: variants={s["variants"]} fired={s["broken_fired"]} silent={s["twins_silent"]} skipped={s["skipped"]} failures={len(s["failures"])}')
        for f in s['failures']:
            print('   FAILURE', f)
            rc = 2
    return rc


if __name__ == '__main__':
    raise SystemExit(main())
